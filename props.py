"""Per-property configuration of the driver: profiles, shard fan-out, evidence level, rule text."""

def units_simple(shards_q, shards_t=None, **kw):
    def f(tier):
        n = shards_q if tier == "quick" else (shards_t or shards_q)
        u = dict(shards=n)
        u.update(kw)
        return [u]
    return f

def units_with32(shards):
    """main harness shards plus the pointer-width lane (harness32 interpreted by Miri for a 32-bit usize target)"""
    def f(tier):
        return [dict(shards=shards), dict(lane32=True)]
    return f

BOTH = ["chk", "rel"]

PROPS = {
    "C08": dict(
        profiles=BOTH, level="model_checking", units=units_with32(16),
        rule=("explicit-state search to fixpoint over real PageTableEntry values: state = raw u64, actions = set_addr/set_frame (45 aligned "
              "addresses incl. every single address bit x ~58 flag sets incl. every single flag bit 0-11/52-63), set_flags, set_unused; after every "
              "transition raw == addr|flags (hardware layout), addr()/flags()/frame()/is_unused() read back; PageTable: size/alignment, all 512 slots "
              "written through each of 3 access paths and read back through 4 paths + raw little-endian bytes, new/zero/is_empty on all 4096 byte positions."),
        assumptions=["flags compared on bits 0-11 and 52-63 (the quantified flag domain); bit 12 is an address bit for 4 KiB-aligned addresses (O2)"],
    ),
    "C12": dict(
        profiles=BOTH, level="model_checking", units=units_simple(16),
        rule=("placement: 23 named fields and all 256 vectors through Index/IndexMut (exact refusal set); all 65536 (a,b) pairs x 22 two-sided RangeBounds "
              "forms + 256 x 7 one-sided forms, each via Index, IndexMut, slice, slice_mut (pointer offset 16*lower, length, exact panic set); encoding: "
              "set_handler_addr for every canonical B64 address decoded with the SDM gate layout; option setters: explicit-state search to fixpoint "
              "(512 gate states x 19 actions) by history re-execution, each setter changes only its field; new/default/reset/missing: all 256 gates; "
              "load/load_unsafe: lidt operand observed through the trap-and-emulate CPU for stack/heap/static tables, and all 340 histories of length <= 4 "
              "over two static tables x {load, load_unsafe} (every call executes exactly one lidt of its own table)."),
        assumptions=["gate layout table (arch.rs / c12::decode_gate) transcribed from SDM vol.3 fig 6-8 is the trusted base",
                     "current code segment = CS of this process (0x33) for the native part"],
    ),
    "C13": dict(
        profiles=BOTH, level="exploration", units=units_simple(16),
        rule=("installation: set_general_handler! for all 32896 (lo<=hi) ranges on a fresh IDT, on a prefilled IDT and in exclusive-range form for every "
              "pair with a boundary endpoint (all pairs in thorough), single-index and full-table forms, and all three forms with side-effecting "
              "argument expressions (evaluated exactly once): present set == range minus reserved vectors, "
              "every other gate byte-identical, stubs pairwise distinct; entry: the address stored in each of the 256 installed gates is entered "
              "with a hardware-format frame (RSP aligned, SS,RSP,RFLAGS,CS,RIP[,error code]) x 6 error-code values in a forked child: handler runs once, "
              "index == vector, frame fields as pushed, error code iff the vector defines one, iretq resumes at the interrupted RIP/RSP with all "
              "caller-saved registers intact; vectors 8/18 observed in grandchildren."),
        assumptions=["native entry uses this process' CS/SS and RFLAGS (arbitrary frame contents are covered by the emulated iretq part when built)",
                     "the harness' general handler re-aligns its stack (LLVM's diverging error-code stub calls it with RSP%16==8)"],
    ),
    "C14": dict(
        profiles=BOTH, level="model_checking", units=units_with32(16),
        rule=("DFS over append histories on real GlobalDescriptorTable<MAX> for MAX in {1,2,3,8,9}: every {user,system}-kind sequence up to the first "
              "overflow beyond MAX, values = default per kind + non-default values (0, all-ones, 6 presets, DPL patterns, TSS descriptor) at one deviation "
              "each (bound 3; 2 for MAX>=8 in quick); after every append entries()==reference Vec<u64>, selector==first_slot<<3|dpl, limit==8*len-1, "
              "overflow panics leave the table unchanged, from_raw_entries reproduces and the rebuilt table continues identically; initial states empty() and, for "
              "MAX=8, new()/Default/from_raw_entries(&[0])/clone/mem::take; MAX=8192 all-user/all-system/alternating fills to overflow; lgdt operand for tables of "
              "every fill level, all load/load_unsafe histories of length <= 4 over two tables and all append/load_unsafe interleavings of length <= 5."),
        assumptions=["64-bit descriptor values covered on a boundary alphabet"],
    ),
    "C15": dict(
        profiles=BOTH, level="exploration", units=units_simple(1),
        rule=("tss_segment_unchecked for every WIDE pointer (every u64 with <=3 set bits, <=3 clear bits, every run of ones: ~90k) decoded with the 16-byte system-descriptor layout; "
              "tss_segment(&'static); 6 presets + 4 constructors decoded to kind/L/D/DPL/P; dpl() for 4 DPLs x 130 surrounding patterns x {user,system}; "
              "TSS and DescriptorTablePointer layouts measured by pointer arithmetic and raw bytes."),
        assumptions=["descriptor layout transcribed from SDM vol.3 fig 8-4 / 3-8 is the trusted base"],
    ),
    "C19": dict(
        profiles=BOTH, level="exploration", units=units_simple(1),
        rule=("finite and complete: every named flag of the 14 bitflags types (walked through bitflags::Flags::FLAGS) compared both ways with the "
              "hand-transcribed manual table; 11 MSR numbers; page sizes; Pat::DEFAULT; MXCSR reset; all 256 u8 for ExceptionVector/PatMemoryType/"
              "DebugAddressRegisterNumber; all 65536 u16 for PrivilegeLevel, SegmentSelector (new/index/rpl/set_rpl), Pcid, SelectorErrorCode; "
              "Dr7Value: 4 registers x 4 conditions x 4 sizes x all 4096 flag subsets."),
        assumptions=["arch.rs (manual transcription) is the trusted base"],
    ),
    "C03": dict(
        profiles=BOTH, level="model_checking", units=units_simple(16),
        rule=("(a) every constructor (try_new/new/new_truncate/from_ptr, high-bit flips) over all of B64 (~700 values: every single bit, "
              "every boundary +-2) plus raw PageTableEntry::addr / idt::Entry::handler_addr on raw bit patterns; (b) explicit-state search: "
              "state = one address value, actions = every safe address-returning operation (align_up/down x 64 alignments, + - += -= x offsets, "
              "Step forward/backward(_checked), Page/PhysFrame containing/+/-/+=/-=/Step/from_indices of 3 sizes, from_ptr; every op= runs on a variable that "
              "stays observable after a caught panic and whatever it then holds is a successor state), initial states CANON / PHYS, "
              "depth 1 with the full alphabet, depth 2 from every new depth-1 value (reduced alphabet in quick, full in thorough); invariant "
              "canonical / <2^52 on every produced value. non-trivial = operation panicked/None or produced a value not seen before."),
        assumptions=["a panic is not a value", "2^64 domain covered on the boundary alphabet B64, histories to depth 2"],
    ),
    "C04": dict(
        profiles=BOTH, level="exploration", units=units_with32(16),
        rule=("all 65536 u16 for PageTableIndex/PageOffset new/new_truncate (exhaustive); every canonical B64 address and every address with "
              "one of the five fields (offset,p1..p4) running through ALL its values while the other four take {0,1,255,256,511}^4: "
              "p1..p4_index, page_offset, page_table_index(level) for the address and Page<4K/2M/1G>, and from_page_table_indices* as exact inverse, "
              "against independently written shifts/masks; 4 levels for the level helpers. non-trivial = at least two non-zero fields. Pointer-width lane: the usize-dependent part (level helpers, integer views of indices, Step counts and distances beyond 2^32, ENTRY_COUNT arithmetic, ranges longer than 2^32 pages) re-checked on a reduced alphabet with the crate built for a 32-bit usize target (i686) and interpreted by Miri, which also aborts on undefined behaviour."),
        assumptions=["the full 512^4 x 4096 product is not enumerated (per-field exhaustive)"],
    ),
    "C05": dict(
        profiles=BOTH, level="exploration", units=units_with32(16),
        rule=("Step::{forward_checked,backward_checked,forward,backward,steps_between} for VirtAddr, Page<4K/2M/1G>, PageTableIndex against the "
              "position model pos(a)=a&(2^48-1): starts = canonical boundary set, counts = 0..4, every pairwise distance between boundary "
              "positions +-1 (in the unit), 2^47+-1, 2^48+-1, usize::MAX, count*SIZE overflow; all start pairs for steps_between; PageTableIndex "
              "all 512 x counts 0..=1024 (+large) exhaustively; mutual-inverse check on every successful step; forward_unchecked/backward_unchecked wherever "
              "the checked variant succeeds; core::ops::Range / RangeInclusive over VirtAddr and Page<S> of lengths 0..6 starting up to 5 positions before "
              "0 / the gap / the top: collect, rev, size_hint, count, nth, nth_back, step_by against the position model. non-trivial = the step crosses "
              "a half boundary or fails. Pointer-width lane: the usize-dependent part (level helpers, integer views of indices, Step counts and distances beyond 2^32, ENTRY_COUNT arithmetic, ranges longer than 2^32 pages) re-checked on a reduced alphabet with the crate built for a 32-bit usize target (i686) and interpreted by Miri, which also aborts on undefined behaviour."),
        assumptions=["2^48 x 2^64 domain covered on boundary starts x boundary-distance counts, not exhaustively"],
    ),
    "C06": dict(
        profiles=BOTH, level="exploration", units=units_with32(16),
        rule=("align_down/align_up (raw, VirtAddr for 2^k<=2^47, PhysAddr) and is_aligned for all 64 power-of-two alignments x (WIDE = every u64 with "
              "<=3 set bits, <=3 clear bits, every contiguous run of ones, B64: ~90k values, + multiples of the alignment around 0, the gap, 2^52, 2^64, +-1) "
              "against u128 arithmetic incl. exact panic conditions; ~2000 non-powers of two must panic; Page/PhysFrame containing_address / "
              "from_start_address for 3 sizes over WIDE and its sign-extended / 52-bit-truncated images. non-trivial = input not aligned. Pointer-width lane: the usize-dependent part (level helpers, integer views of indices, Step counts and distances beyond 2^32, ENTRY_COUNT arithmetic, ranges longer than 2^32 pages) re-checked on a reduced alphabet with the crate built for a 32-bit usize target (i686) and interpreted by Miri, which also aborts on undefined behaviour."),
        assumptions=["2^64 domain covered on the bit-shape alphabet WIDE (exhaustive over values with <=3 set or <=3 clear bits and runs of ones), not on all 2^64 values"],
    ),
    "C07": dict(
        profiles=BOTH, level="exploration", units=units_with32(16),
        rule=("bounded exhaustive enumeration: every (valid value x B64 offset) pair for + - += -= and value-value "
              "differences of VirtAddr/PhysAddr/Page<S>/PhysFrame<S> (S = 4KiB,2MiB,1GiB; page counts also B64/SIZE+-1), in both "
              "build profiles, against u128 arithmetic; every range kind x size x anchor (start/end of each canonical half, "
              "last physical frame, 0..2 pages back) x length 0..24 (quick) / 0..70 + 200000 (thorough); for every range case each provided Iterator "
              "method a range type could override (nth, skip, step_by, count, last, size_hint, fold, min, max; k in 0..3, n-1, n, n+1, n+3, 2n+5, 511, 512, 2^20, "
              "usize::MAX) must agree with plain next(); thorough adds (WIDE addresses x small offsets) and (small addresses x WIDE offsets). Alphabets are "
              "sorted+deduplicated so cases are distinct by construction; non-trivial = exact result unrepresentable or above 2^47 "
              "(arith), non-empty range (ranges). Pointer-width lane: the usize-dependent part (level helpers, integer views of indices, Step counts and distances beyond 2^32, ENTRY_COUNT arithmetic, ranges longer than 2^32 pages) re-checked on a reduced alphabet with the crate built for a 32-bit usize target (i686) and interpreted by Miri, which also aborts on undefined behaviour."),
        assumptions=["a panic is accepted for every arithmetic operator (statement: exact-or-panic); for ranges a panic is a violation",
                     "2^64 input domain covered on the boundary alphabet B64 (every single bit, every boundary +-2), not exhaustively"],
    ),
}

ENGINES = [
    {"name": "vh", "path": "/verif/harness", "serves_properties": sorted(PROPS.keys()),
     "kind_free_text": "Rust harness linking the crate from /repo; bounded exhaustive enumeration / explicit-state search over real code with reference models"},
    {"name": "vh32", "path": "/verif/harness32", "serves_properties": ["C04", "C05", "C06", "C07", "C08", "C14"],
     "kind_free_text": "pointer-width lane: bounded enumeration of the usize-dependent operations with the crate built for a 32-bit usize target (i686), interpreted by Miri (which also aborts on undefined behaviour)"},
]

_ALL = ["C%02d" % i for i in range(1, 21)]
NOT_APPLICABLE = [
    {"property_id": p, "reason": "check not built yet in this round (planned, see DESIGN.md §5); not claimed"}
    for p in _ALL if p not in PROPS
]

# ------------------------------------------------------------------ mapper search (C01 C02 C09 C10 C11a): shared engine "MAPPER"
MAPPER_CONFIGS = [
    # (config, quick bounds, thorough bounds) — bounds are unions of (max depth, max deviations)
    ("offset:0x0:asc:A",            "2,2;3,2;4,0", "3,3;4,2;5,1;6,0"),
    ("offset:0x40000000:aligned:A", "2,2;3,2;4,0", "3,3;4,2;5,1;6,0"),
    ("offset:0x3fffc000:asc:A",     "2,2;3,2;4,0", "3,3;4,1;5,0"),
    ("offset:0x3fc0000000:lifo:A",  "2,2;3,2;4,0", "3,3;4,2;5,1;6,0"),
    ("offset:0x0:lifo:B",           "2,2;3,1",     "3,2;4,1;5,0"),
    ("mapped:0x0:asc:A",            "2,2;3,2;4,0", "3,3;4,2;5,1;6,0"),
    ("mapped:0x3fffd000:lifo:A",    "2,2;3,2;4,0", "3,3;4,1;5,0"),
    ("mapped:0x40000000:aligned:B", "2,2;3,1",     "3,2;4,1;5,0"),
    ("rec1:0x0:asc:A",              "2,2;3,1;4,0", "3,3;4,1;5,0"),
    ("rec126:0x3fffc000:asc:A",     "2,2;3,1;4,0", "3,3;4,1;5,0"),
    ("rec126:0x3fffd000:lifo:A",    "2,2;3,1;4,0", "3,2;4,1;5,0"),
    ("rec248:0x40000000:aligned:A", "2,2;3,1;4,0", "3,3;4,1;5,0"),
    ("rec200:0x0:lifo:B",           "2,2;3,0",     "3,2;4,0"),
    ("rec2:0x40000000:asc:B",       "2,2;3,0",     "3,2;4,0"),
    ("offset:0x40000000:asc:B",     "2,2;3,1",     "3,2;4,1;5,0"),
    ("mapped:0x0:lifo:A",           "2,2;3,2;4,0", "3,3;4,2;5,1;6,0"),
    # recursive mapper built with new_unchecked from a non-recursive alias of the level-4 table
    ("reca126:0x0:asc:A",           "2,2;3,0",     "3,3;4,1;5,0"),
    ("reca1:0x40000000:lifo:B",     "2,1",         "3,2;4,0"),
    # alphabet C: pages whose table indices are related (equal at two/three/four levels, swapped pairs, == R)
    ("offset:0x0:asc:C",            "2,2;3,1;4,0", "3,3;4,1;5,0"),
    ("mapped:0x3fffd000:lifo:C",    "2,2;3,1;4,0", "3,3;4,1;5,0"),
    ("rec5:0x0:asc:C",              "2,2;3,2;4,0", "3,3;4,2;5,0"),
    # physical base 0 with the lowest frame handed out first: frame 0 (physical address 0) becomes a page TABLE
    ("offset:0x0:aligned:A",        "2,2;3,1",     "3,3;4,1;5,0"),
    ("mapped:0x0:aligned:C",        "2,2;3,1",     "3,3;4,1"),
    ("rec126:0x0:aligned:A",        "2,2;3,0",     "3,2;4,0"),
    # page-table frames at physical addresses with bits 48..51 set (above 256 TiB)
    ("mapped:0xa000040000000:asc:A", "2,2;3,1",    "3,3;4,1"),
    ("rec126:0x8000000000000:lifo:A", "2,2;3,0",   "3,2;4,0"),
    # physical-memory offsets of one and two pages: the virtual address of a table equals the physical address of the table
    # allocated one / two frames later (ascending allocation places child tables right behind their parents)
    ("offset:0x3ffffffff000:asc:A", "2,2;3,1",     "3,3;4,1"),
    ("offset:0x3fffffffe000:asc:C", "2,2;3,0",     "3,2;4,0"),
    # alphabet W (wide): 21 sibling tables under one parent at each level; the search is shallow, the wide histories
    # (n siblings created, emptied and cleaned up in ONE call, n = 1..=21) run after it
    ("offset:0x0:asc:W",            "1,0",         "2,0"),
    ("mapped:0x3fffd000:lifo:W",    "1,0",         "2,0"),
    ("rec126:0x0:asc:W",            "1,0",         "2,0"),
]

# the same engine built without overflow checks / debug assertions (profile rel) for one configuration per mapper family:
# behaviour guarded only by debug_assert!, or arithmetic that wraps silently, shows only there
MAPPER_REL_CONFIGS = [
    ("offset:0x0:asc:A",            "2,2;3,0",     "3,2;4,0"),
    ("mapped:0x3fffd000:lifo:A",    "2,2;3,0",     "3,2;4,0"),
    ("rec126:0x3fffc000:asc:A",     "2,2;3,0",     "3,2;4,0"),
    ("offset:0x40000000:asc:B",     "2,1",         "3,1"),
    ("rec5:0x0:asc:C",              "2,2",         "3,2"),
]

def mapper_units(tier):
    us = []
    for cfg, q, t in MAPPER_CONFIGS:
        us.append(dict(sub="MAPPER", profile="chk", args=[cfg, q if tier == "quick" else t, "1500000" if tier == "quick" else "20000000"]))
    for cfg, q, t in MAPPER_REL_CONFIGS:
        us.append(dict(sub="MAPPER", profile="rel", args=[cfg, q if tier == "quick" else t, "1500000" if tier == "quick" else "20000000"]))
    return us

_MAPPER_RULE = ("explicit-state breadth-first search over call histories on the real mappers (OffsetPageTable with several physical offsets, "
                "MappedPageTable with a permuted frame mapping, RecursivePageTable through a demand-mapped recursive window for R in {1,2,126,200,248}) "
                "over simulated physical memory: state = concrete content of all page-table frames + allocator pool (+ deviations used); ~250 actions "
                "per state (map_to_with_table_flags/map_to/identity_map x 3 sizes x frames x leaf flags (incl. one value with every flag bit but HUGE_PAGE) x 4 parent-flag values (two of them incomparable) x 5 allocator failure schedules, unmap, "
                "update_flags, set_flags_p4/p3/p2_entry, clean_up, clean_up_addr_range x 12 ranges); bounds are unions of (depth, deviation) pairs, a deviation "
                "being one non-default argument; 31 configurations (implementation x physical base x allocator policy x page alphabet A nesting / B edges / C related indices / W 21 siblings per parent) in the overflow-checking profile plus 5 of them rebuilt without overflow checks / debug assertions. "
                "Beyond the bound: in every state reached by a call that released frames, one more map of each page with an exhausted allocator (result discarded); identity_map of frames whose address is not a canonical virtual address; for alphabet W the wide histories (1..=21 sibling tables created, emptied and cleaned up in one call). " "After every transition: outcome class vs the abstract model R1 (Appendix A of DESIGN.md), full hardware-style traversal R2 of raw memory == R1, "
                "parent-entry flags, allocation/deallocation logs, access monitor; in every new state: translate/translate_addr/translate_page on the probe addresses == R1 == single-address hardware walk.")

def _mapper_prop(extra_rule, assumptions):
    return dict(profiles=BOTH, level="model_checking", units=mapper_units, engine="vh MAPPER",
                rule=_MAPPER_RULE + " " + extra_rule, assumptions=assumptions, timeout={"quick": 300, "thorough": 3000},
                technique="explicit-state model checking (BFS with state hashing, deviation-bounded) of the real mapper code against a reference model")

PROPS["C01"] = _mapper_prop("This property: translation agreement (R1 = R2 = implementation), unmap returns the mapped frame, parent flags on the walk.",
    ["leaf flags compared on bits 0-11 and 52-63", "W/U bits ignored by the recursive window (ring 0, CR0.WP=0)", "visited set keyed by 128-bit state hash"])
PROPS["C02"] = _mapper_prop("This property: exact outcome classes incl. every allocator failure schedule (fault enumeration), no mapping change on Err, identical across implementations (same R1 verdict).",
    ["where the documentation is silent (slot holds a table for a huge-page call) any Err is accepted but never Ok", "payload of PageAlreadyMapped = the frame of the refused request (what all three implementations report)"])
PROPS["C09"] = _mapper_prop("This property: PROT_NONE access monitor on every non-table frame (stray reads/writes), garbage-prefilled recycled frames make missing zeroing visible, allocation request counts per call, only clean-up releases.",
    ["frame-granular monitor inside the simulated window plus process-level faults outside it"])
PROPS["C10"] = _mapper_prop("This property: every state x clean_up / 12 ranges: each released frame checked at the moment of the callback (empty, unlinked, a level 1-3 table overlapping the range, once), no empty table left wholly inside the range, translations and other tables unchanged, second identical clean-up releases nothing.",
    ["partially overlapping empty tables may or may not be released (statement leaves it open)"])
PROPS["C11"] = _mapper_prop("This property (part a): every Ok of a leaf-changing call carries MapperFlush::page() == argument page, parent-entry setters return MapperFlushAll; parts b-d (flush instructions) run on the trap-and-emulate CPU.",
    [])
ENGINES[0]["serves_properties"] = sorted(PROPS.keys())
NOT_APPLICABLE[:] = [{"property_id": p, "reason": "check not built yet in this round (planned, see DESIGN.md §5); not claimed"} for p in _ALL if p not in PROPS]

# ------------------------------------------------------------------ trap-and-emulate CPU (E4) properties
_E4 = ["real inline asm of the crate executed; sensitive instructions decoded and applied to a simulated register file (storage only: no architectural faults)",
       "instruction decoder (simcpu.rs, Appendix B of DESIGN.md) and arch.rs tables are the trusted base"]

def c11_units(tier):
    us = mapper_units(tier)
    for prof in BOTH:
        us.append(dict(sub="C11F", profile=prof, shards=16))
    return us
PROPS["C11"]["units"] = c11_units
PROPS["C11"]["profiles"] = BOTH
PROPS["C11"]["rule"] += (" Flush part: tlb::flush / MapperFlush::flush for every canonical boundary address and 3 page sizes (one invlpg of exactly that address); "
    "flush_all / MapperFlushAll::flush_all for 5 frames x 19 low-12-bit patterns of CR3 (events exactly [read CR3 = v, write CR3 = v]); flush_pcid for ALL 4096 PCIDs x 4 kinds "
    "(type register and 16-byte descriptor); Invlpgb::new under emulated CS/CPUID for count_max in {0,1,3,7,255,65535}(+more in thorough) x nested support; "
    "builder x 32 option combinations x 4KiB/2MiB ranges of 0..20,257 pages placed low / ending at / straddling / starting at the canonical boundary / at the top: "
    "every INVLPGB request's rAX/ECX/EDX decoded per the APM, counts <= maximum, union covers the range, no request crosses the gap.")
PROPS["C11"]["assumptions"] = _E4 + ["INVLPGB count semantics: coverage is checked under the crate's reading (max(count,1) pages), the smaller of the two readings (O1)"]

PROPS["C16"] = dict(
    profiles=BOTH, level="model_checking", units=units_simple(7), engine="vh C16",
    technique="bounded exhaustive enumeration of (prior register content x wrapper x argument) with depth-2 histories (write;read), every execution single-stepped on a trap-and-emulate CPU model and its instruction/event trace compared with the architectural reference",
    rule=("every wrapper named in the property executed under RFLAGS.TF single-stepping with each sensitive instruction (mov crN/drN, rdmsr/wrmsr, xgetbv/xsetbv, mov sreg, "
          "rd/wrfsbase, swapgs, ltr, lgdt/lidt/sgdt/sidt, pushfq/popfq, ld/stmxcsr, retfq) emulated: prior contents = 0, all-ones, every single bit, every all-but-one, patterns "
          "(134 values; thinned x1/3 in quick) x arguments = empty/all/each single flag/all-but-one, 6 frames, ALL 4096 PCIDs (thorough; 1/7 + single-bit in quick), selector "
          "quadruples around the +-8/+-16/RPL rules, canonical boundary addresses, all PAT types in each slot, DR7 valid-bit lattice, 256 XCR0 subsets x {MPK,LWP}. Oracle: the event "
          "list equals the expected sequence (right instruction, register/MSR number, 64-bit value), typed write = (old & ~modelled)|fields where the crate documents preservation "
          "(Cr0 Cr4 Efer XCr0 Dr7 rflags ApicBase) and exactly the fields for plain writes, typed read = modelled bits, update = read-modify-write, write-then-read round trip, "
          "documented rejections produce no write event. state = (wrapper, register content); transitions = emulated sensitive instructions."),
    assumptions=_E4 + ["'preserving every bit the type does not model' is demanded only where the crate documents preservation; for Star/SFMask/UCet/SCet/Pat/Cr3/address MSRs (plain writes) the written value is exactly the given fields",
                       "the upper halves of RAX/RDX at WRMSR/XSETBV are don't-care"],
)
PROPS["C17"] = dict(
    profiles=BOTH + ["dbg"], level="model_checking", units=units_simple(16), engine="vh C17",
    technique="exhaustive enumeration of nesting programs up to a depth/branching bound, each interpreted by real nested calls under single-stepping with the interrupt flag held in the CPU model",
    rule=("all trees of without_interrupts nestings with depth<=3 and <=2 siblings, depth<=2 and <=3 siblings, chains to depth 8 (thorough: + depth 2 x 4 siblings, depth 4 x 1) x initial "
          "IF in {0,1} x 2 result seeds, interpreted by real nested calls; in every closure body IF (read from the CPU model, not through the crate) is 0, each body runs once, after each "
          "call IF equals its value before, the result passes through, only pushfq/cli/sti are executed; enable/disable/are_enabled x 6 flag words; enable_and_hlt: the executed "
          "stream is sti immediately followed by hlt at the adjacent address."),
    assumptions=_E4 + ["atomicity of sti;hlt (interrupt shadow) is a hardware guarantee; checked as adjacency in the executed instruction stream",
                       "three build profiles: optimised with / without overflow checks, and unoptimised (dbg, opt-level 0: wrappers not inlined)"],
)
PROPS["C18"] = dict(
    profiles=BOTH, level="exploration", units=units_simple(16), engine="vh C18",
    rule=("fault mode (#GP at in/out in ring 3, decoded and emulated): ALL 65536 ports x u8/u16/u32 x read/write x Port/PortReadOnly/PortWriteOnly x 3 values (6 for every 64th port): "
          "exactly one in/out event, port == constructor argument, width from opcode/prefix, value written == argument, value read == value supplied by the device; canaries around the "
          "port object; step mode on a 200-port alphabet (complete instruction stream: no other sensitive instruction); PartialEq/Clone on all pairs of a ~300-port set."),
    assumptions=_E4 + ["'without touching memory' observed through canaries around the port object and the absence of other sensitive instructions, not through a memory monitor"],
)
def c20_units(tier):
    us = [dict(sub="C20", profile="chk", shards=16), dict(sub="C20", profile="rel", shards=16)]
    # dynamic part: every recursive-window page touched in the mapper search is the recursive address of a table the call concerns
    for cfg, q, t in MAPPER_CONFIGS:
        if cfg.startswith("rec"):
            us.append(dict(sub="MAPPER", profile="chk", args=[cfg, q if tier == "quick" else t, "1500000" if tier == "quick" else "20000000"]))
    for R, pb in [(1, "0x0"), (2, "0xe800000000000"), (126, "0x0"), (126, "0xfffff00000000"), (200, "0x40000000"), (248, "0x0"), (248, "0x8000000000000")]:
        us.append(dict(sub="C20", profile="chk", args=["ctor", str(R), pb]))
    return us
PROPS["C20"] = dict(
    profiles=BOTH, level="model_checking", timeout={"quick": 300, "thorough": 3000}, units=c20_units, engine="vh C20",
    rule=("address computation: ALL 512 recursive indices x each upper page index through all 512 values (others in {0,1,255,256,511}) x 3 sizes, p3/p2/p1 table pages and pointers "
          "(through the verif_hooks accessors) == sign_extend(R<<39|R<<30|R<<21|p4<<12) etc.; constructor: for R in {1,2,126,200,248} a real table at (R,R,R,R) (the simulated level-4 "
          "frame) and real pages at every near-recursive address (one index +1/-1/+2 in each position) x 6 CR3 contents (emulated mov r,cr3; physical bases incl. addresses above 2^48) x 7 contents of the candidate slot (incl. a frame differing only in physical bits 48..51): "
          "NotRecursive / NotActive / Ok exactly as specified; the index it then uses is observed from the first recursive-window address it dereferences. "
          "Dynamic part (8 recursive configurations of the mapper search, R in {1,2,126,200,248}, incl. pages whose level-3/2/1 index equals R, two of them "
          "built with new_unchecked from a non-recursive alias of the level-4 table): every recursive-window page "
          "the mapper touches during a call or during the translate/translate_addr/translate_page probes of a state must be (R,R,R,p4) / (R,R,p4,p3) / (R,p4,p3,p2) of the page it works on, and clean-up must visit exactly the tables that overlap its range, each through its own recursive address."),
    assumptions=_E4 + ["recursive indices >= 256 are reached for the address computation only (kernel-half addresses cannot be mapped in a user process)"],
)
ENGINES[0]["serves_properties"] = sorted(PROPS.keys())
NOT_APPLICABLE[:] = [{"property_id": p, "reason": "check not built yet; not claimed"} for p in _ALL if p not in PROPS]
