"""Per-property configuration of the driver: profiles, shard fan-out, evidence level, rule text."""

def units_simple(shards_q, shards_t=None, **kw):
    def f(tier):
        n = shards_q if tier == "quick" else (shards_t or shards_q)
        u = dict(shards=n)
        u.update(kw)
        return [u]
    return f

BOTH = ["chk", "rel"]

PROPS = {
    "C07": dict(
        profiles=BOTH, level="exploration", units=units_simple(16),
        rule=("bounded exhaustive enumeration: every (valid value x B64 offset) pair for + - += -= and value-value "
              "differences of VirtAddr/PhysAddr/Page<S>/PhysFrame<S> (S = 4KiB,2MiB,1GiB; page counts also B64/SIZE+-1), in both "
              "build profiles, against u128 arithmetic; every range kind x size x anchor (start/end of each canonical half, "
              "last physical frame, 0..2 pages back) x length 0..24 (quick) / 0..70 + 200000 (thorough). Alphabets are "
              "sorted+deduplicated so cases are distinct by construction; non-trivial = exact result unrepresentable or above 2^47 "
              "(arith), non-empty range (ranges)."),
        assumptions=["a panic is accepted for every arithmetic operator (statement: exact-or-panic); for ranges a panic is a violation",
                     "2^64 input domain covered on the boundary alphabet B64 (every single bit, every boundary +-2), not exhaustively"],
    ),
}

ENGINES = [
    {"name": "vh", "path": "/verif/harness", "serves_properties": sorted(PROPS.keys()),
     "kind_free_text": "Rust harness linking the crate from /repo; bounded exhaustive enumeration / explicit-state search over real code with reference models"},
]

_ALL = ["C%02d" % i for i in range(1, 21)]
NOT_APPLICABLE = [
    {"property_id": p, "reason": "check not built yet in this round (planned, see DESIGN.md §5); not claimed"}
    for p in _ALL if p not in PROPS
]
