#!/bin/bash
# usage: scripts/verify_seeded.sh <ID> [<worktree>]  — confirm a seeded change: demo passes without / fails with the patch, repo tests pass with it,
# and run the property's quick check against it. Writes seeded/<ID>/verified.json
id=$1; prop=${id%%-*}; wt=${2:-/tmp/wt-$id}; sd=/verif/seeded/$id
cd $wt || exit 2
git checkout -q -- . 2>/dev/null
mkdir -p tests; for f in $sd/*.rs; do [ -f "$f" ] && cp "$f" tests/; done
names=$(ls $sd/*.rs 2>/dev/null | xargs -n1 basename | sed 's/\.rs$//')
run_demo() { ok=1; for n in $names; do for prof in "" "--release"; do cargo test --offline $prof --test $n >/tmp/demo-$id.log 2>&1 || ok=0; done; done; echo $ok; }
clean=$(run_demo)
git apply $sd/patch.diff || { echo "patch does not apply"; exit 2; }
withp=$(run_demo)
suite=$(cargo test --offline --lib 2>&1 | grep -E "^test result" | head -1)
git checkout -q -- .
cd /verif
if [ "${SKIP_CHECK:-0}" = 1 ]; then out="rc=- (detection filled in by scripts/regress_parallel.sh)"; else out=$(scripts/try_mutant.sh $sd/patch.diff $prop 2>&1); fi
sig=$(echo "$out" | grep -o "signature:.*" | head -1)
rc=$(echo "$out" | grep -o "rc=[0-9]*" | head -1)
python3 - "$id" "$clean" "$withp" "$suite" "$rc" "$sig" <<'PY'
import json,sys
id,clean,withp,suite,rc,sig=sys.argv[1:7]
json.dump({"id":id,"demo_passes_on_unmodified_tree":clean=="1","demo_fails_with_patch":withp=="0","repo_unit_suite_with_patch":suite,
  "quick_check":rc,"first_signature":sig,"detected":rc=="rc=1"},open(f"/verif/seeded/{id}/verified.json","w"),indent=1)
print(id,"clean_demo_pass=",clean,"patched_demo_fail=",withp=="0",rc,sig[:120])
PY
