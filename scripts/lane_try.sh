#!/bin/bash
# usage: scripts/lane_try.sh <patch-file> <PROP> [more ./check args]  — apply one patch in a scratch copy of /repo + /verif under
# /tmp/lane1 (kept until the next call, for debugging) and run the property's check there.  /repo itself is never touched.
L=/tmp/lane1; mkdir -p $L
rsync -a --delete --exclude target /repo/ $L/repo/
rsync -a --delete --exclude replays --exclude seeded --exclude mutants --exclude .git /verif/ $L/verif/
sed -i "s#path = \"/repo\"#path = \"$L/repo\"#" $L/verif/harness/Cargo.toml $L/verif/harness32/Cargo.toml
( cd $L/repo && git checkout -q -- . && git apply "$1" ) || { echo patch-does-not-apply; exit 2; }
shift
cd $L/verif && ./check "$@"
