#!/usr/bin/env python3
"""Re-derive the `case` (action indices shift when the action alphabet grows) of every known-finding replay in known_replays/
from a fresh shallow search, and confirm that each one still reproduces its signature."""
import json, glob, subprocess, sys
VH = '/verif/harness/target/chk/vh'
found = {}
for cfg in ['offset:0x0:asc:A', 'rec1:0x0:asc:A', 'offset:0x3fffc000:asc:A', 'rec126:0x3fffc000:asc:A']:
    out = subprocess.run([VH, 'MAPPER', '--tier', 'quick', '--shard', '0/1', cfg, '2,2', '1500000'], capture_output=True, text=True).stdout
    for l in out.splitlines():
        try: d = json.loads(l)
        except Exception: continue
        if d.get('type') == 'violation':
            found.setdefault(d['sig'], d)
bad = 0
for f in sorted(glob.glob('/verif/known_replays/*.json')):
    k = json.load(open(f))
    v = found.get(k['signature'])
    if not v:
        print('NOT FOUND', f); bad += 1; continue
    k['case'] = v['case']; k['detail'] = v.get('detail', k.get('detail'))
    out = subprocess.run([VH, 'MAPPER', '--replay', v['case'].split(' #')[0]], capture_output=True, text=True).stdout
    if k['signature'] not in out:
        print('DOES NOT REPRODUCE', f); bad += 1
    json.dump(k, open(f, 'w'), indent=1)
print('refreshed', len(glob.glob('/verif/known_replays/*.json')), 'bad', bad)
sys.exit(1 if bad else 0)
