#!/bin/bash
# usage: scripts/regress_parallel.sh [lanes] [pattern]  — re-run every seeded change (seeded/<ID>/patch.diff) and every own mutant
# (mutants/*.patch, property = leading cNN of the file name) against its property's quick check, in <lanes> scratch copies of
# /repo + /verif under /tmp (removed afterwards).  Writes /verif/seeded/REGRESSION.txt: one line per change with rc (1 = detected).
# /repo itself is never touched.
lanes=${1:-4}; pat=${2:-.}
work=${RGX_WORK:-/tmp/rgx}   # a second, concurrent run needs its own RGX_WORK (and a pattern: it writes REGRESSION-partial.txt)
rm -rf $work; mkdir -p $work
items=()
for d in /verif/seeded/C*; do items+=("$(basename $d) ${d}/patch.diff $(basename $d | cut -d- -f1)"); done
for m in /verif/mutants/*.patch; do b=$(basename $m .patch); p=$(echo ${b:0:3} | tr c C); items+=("mutant:$b $m $p"); done
lane() {
  i=$1
  L=$work/l$i; mkdir -p $L
  rsync -a --exclude target /repo/ $L/repo/
  rsync -a --exclude replays --exclude seeded --exclude mutants --exclude .git /verif/ $L/verif/
  sed -i "s#path = \"/repo\"#path = \"$L/repo\"#" $L/verif/harness/Cargo.toml
  sed -i "s#path = \"/repo\"#path = \"$L/repo\"#" $L/verif/harness32/Cargo.toml
  n=0
  for it in "${items[@]}"; do
    n=$((n+1)); [ $((n % lanes)) -eq $i ] || continue
    set -- $it
    echo "$1" | grep -q -E "$pat" || continue
    ( cd $L/repo && git checkout -q -- . && git apply "$2" ) || { echo "$1 patch-does-not-apply" >> $work/out.$i; continue; }
    out=$(cd $L/verif && timeout 900 ./check $3 --tier quick 2>/dev/null); rc=$?
    sig=$(echo "$out" | grep -m1 'signature:' | sed 's/^ *//')
    echo "$1 $3 rc=$rc $sig" >> $work/out.$i
    ( cd $L/repo && git checkout -q -- . )
  done
}
for i in $(seq 0 $((lanes-1))); do lane $i & done
wait
# a full run rewrites REGRESSION.txt; a run restricted by a pattern writes REGRESSION-partial.txt
outf=/verif/seeded/REGRESSION.txt; [ "$pat" = "." ] || outf=/verif/seeded/REGRESSION-partial.txt
cat $work/out.* 2>/dev/null | sort > $outf
rm -rf $work
echo "detected: $(grep -c 'rc=1' $outf) / $(wc -l < $outf)"
grep -v 'rc=1' $outf
