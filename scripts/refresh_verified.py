#!/usr/bin/env python3
"""Copy the detection results of seeded/REGRESSION.txt (one line per change: "<ID> <PROP> rc=<n> signature: <sig>") into the
verified.json of every seeded change, then regenerate seeded/INDEX.md."""
import json, os, re, subprocess, sys
root = '/verif/seeded'
n = 0
for line in open(os.path.join(root, 'REGRESSION.txt')):
    m = re.match(r'(\S+) (C\d\d) rc=(\d+)\s*(?:signature: (.*))?$', line.strip())
    if not m or m.group(1).startswith('mutant:'):
        continue
    sid, prop, rc, sig = m.group(1), m.group(2), int(m.group(3)), (m.group(4) or '').strip()
    p = os.path.join(root, sid, 'verified.json')
    if not os.path.exists(p):
        print('no verified.json for', sid); continue
    d = json.load(open(p))
    d['quick_check'] = 'rc=%d' % rc
    d['first_signature'] = sig
    d['detected'] = rc == 1
    json.dump(d, open(p, 'w'), indent=1)
    n += 1
print('updated', n)
subprocess.run([sys.executable, '/verif/scripts/seeded_index.py'])
