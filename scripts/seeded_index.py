#!/usr/bin/env python3
"""Regenerate /verif/seeded/INDEX.md from seeded/*/meta.json and verified.json."""
import json, glob, os
rows = []
for d in sorted(glob.glob('/verif/seeded/*/')):
    i = os.path.basename(d.rstrip('/'))
    try:
        m = json.load(open(d + 'meta.json')); v = json.load(open(d + 'verified.json'))
    except Exception as e:
        continue
    rows.append((i, m.get('summary', '')[:160].replace('|', '/').replace('\n', ' '), m.get('needs', '')[:160].replace('|', '/').replace('\n', ' '),
                 'yes' if v['demo_passes_on_unmodified_tree'] and v['demo_fails_with_patch'] else 'NO', 'detected' if v['detected'] else 'MISSED', v['first_signature'].replace('signature: ', '').replace('|', '¦')[:120]))
with open('/verif/seeded/INDEX.md', 'w') as f:
    f.write('# Seeded changes written by independent sub-agents\n\nEach directory holds patch.diff, the demonstration, meta.json (the author\'s description) and verified.json (what I re-ran).\n\n')
    f.write('| id | change | needs | demo confirmed | quick check | first signature |\n|---|---|---|---|---|---|\n')
    for r in rows:
        f.write('| ' + ' | '.join(r) + ' |\n')
print(len(rows), 'rows')
