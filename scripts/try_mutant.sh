#!/bin/bash
# usage: scripts/try_mutant.sh <patch> <prop> [<prop>...]   — apply a patch to /repo, run the pinned tests and the given quick checks, revert.
set -u
patch=$(readlink -f "$1"); shift
cd /repo || exit 2
if ! git diff --quiet; then echo "/repo has uncommitted changes"; exit 2; fi
git apply "$patch" || { echo "patch does not apply"; exit 2; }
trap 'git -C /repo checkout -- . ' EXIT
if [ "${SKIP_TESTS:-0}" != 1 ]; then
  t=$(cargo test --offline 2>&1 | grep -E "^test result" | head -1)
  echo "repo tests: $t"
fi
cd /verif
for p in "$@"; do
  out=$(timeout 900 ./check "$p" --tier quick 2>/dev/null); rc=$?
  nv=$(echo "$out" | grep -c "^VIOLATION")
  echo "check $p: rc=$rc violations=$nv $(echo "$out" | grep -m1 'signature:')"
done
