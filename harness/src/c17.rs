//! C17 — without_interrupts restores the interrupt flag; enable_and_hlt is atomic (E4 step mode).
use crate::out::*;
use crate::simcpu::{cpu, run_stepped, Ev};
use crate::Args;
use x86_64::instructions::interrupts;

/// a program: a list of nodes; `flip == false`: without_interrupts(|| children); `flip == true`: a scope that toggles the
/// interrupt flag with the crate's enable()/disable(), runs its children and toggles it back (it leaves the flag as it found it)
#[derive(Clone, Debug)]
pub struct Tree(pub Vec<Tree>, pub bool);
fn wi(v: Vec<Tree>) -> Tree {
    Tree(v, false)
}

fn gen(depth: u32, width: usize) -> Vec<Tree> {
    // all trees of nesting depth <= depth with <= width children per node
    if depth == 0 {
        return vec![wi(vec![])];
    }
    let sub = gen(depth - 1, width);
    let mut out = vec![wi(vec![])];
    let mut level: Vec<Vec<Tree>> = vec![vec![]];
    for _ in 0..width {
        let mut next = Vec::new();
        for pre in &level {
            for s in &sub {
                let mut v = pre.clone();
                v.push(s.clone());
                next.push(v);
            }
        }
        for v in &next {
            out.push(wi(v.clone()));
        }
        level = next;
    }
    out
}

pub struct Obs {
    pub bodies: u32,
    pub if_in_body_nonzero: u32,
    pub if_not_restored: u32,
}
static mut OBS: Obs = Obs { bodies: 0, if_in_body_nonzero: 0, if_not_restored: 0 };

/// interpret a program by real nested calls of without_interrupts; every closure returns a value derived from its children
#[allow(static_mut_refs)]
fn interp(t: &Tree, seed: u64) -> u64 {
    let mut acc = seed;
    for (i, c) in t.0.iter().enumerate() {
        let before = cpu().interrupts_enabled();
        if c.1 {
            // flag-flipping scope
            if before { interrupts::disable() } else { interrupts::enable() }
            let v = interp(c, acc.wrapping_mul(31).wrapping_add(i as u64 + 1));
            if before { interrupts::enable() } else { interrupts::disable() }
            acc = acc.rotate_left(7) ^ v;
            continue;
        }
        let v = interrupts::without_interrupts(|| {
            unsafe {
                OBS.bodies += 1;
                if cpu().interrupts_enabled() {
                    OBS.if_in_body_nonzero += 1;
                }
            }
            interp(c, acc.wrapping_mul(31).wrapping_add(i as u64 + 1))
        });
        if cpu().interrupts_enabled() != before {
            unsafe { OBS.if_not_restored += 1 };
        }
        acc = acc.rotate_left(7) ^ v;
    }
    acc
}
/// the same computation without the crate
fn reference(t: &Tree, seed: u64) -> (u64, u32) {
    let mut acc = seed;
    let mut n = 0;
    for (i, c) in t.0.iter().enumerate() {
        let (v, m) = reference(c, acc.wrapping_mul(31).wrapping_add(i as u64 + 1));
        n += (!c.1) as u32 + m;
        acc = acc.rotate_left(7) ^ v;
    }
    (acc, n)
}

fn show(t: &Tree) -> String {
    let mut s = String::from(if t.1 { "[" } else { "(" });
    for c in &t.0 {
        s += &show(c);
    }
    s.push(if t.1 { ']' } else { ')' });
    s
}
fn parse(s: &[u8], pos: &mut usize) -> Tree {
    let mut v = vec![];
    let flip = s[*pos] == b'[';
    *pos += 1; // '(' or '['
    while s[*pos] == b'(' || s[*pos] == b'[' {
        v.push(parse(s, pos));
    }
    *pos += 1; // ')' or ']'
    Tree(v, flip)
}

#[allow(static_mut_refs)]
pub fn program_case(r: &mut Rep, t: &Tree, if0: bool, seed: u64) {
    let c = cpu();
    c.rflags_sys = if if0 { 0x202 } else { 0x2 };
    c.clear_events();
    unsafe { OBS = Obs { bodies: 0, if_in_body_nonzero: 0, if_not_restored: 0 } };
    let (exp, nbodies) = reference(t, seed);
    let res = run_stepped(|| interp(t, seed));
    let evs = c.evs();
    r.ev(nbodies > 1);
    r.transitions += evs.len() as u64;
    let case = format!("prog {} {} {:#x}", show(t), if0 as u8, seed);
    let o = unsafe { &OBS };
    if res.is_err() {
        r.viol("C17|without_interrupts|panics", &case, "");
        return;
    }
    if o.if_in_body_nonzero > 0 {
        r.viol("C17|without_interrupts|closure-runs-with-interrupts-enabled", &case, &format!("{} of {} bodies", o.if_in_body_nonzero, o.bodies));
    }
    if o.bodies != nbodies {
        r.viol("C17|without_interrupts|closure-not-run-exactly-once", &case, &format!("{} bodies, expected {}", o.bodies, nbodies));
    }
    if o.if_not_restored > 0 || c.interrupts_enabled() != if0 {
        r.viol(&format!("C17|without_interrupts|interrupt-flag-not-restored|initial-IF={}", if0 as u8), &case, &format!("{} calls left IF changed; final IF {}", o.if_not_restored, c.interrupts_enabled()));
    }
    if res != Ok(exp) {
        r.viol("C17|without_interrupts|result-not-passed-through", &case, &format!("{:x?} expected {:#x}", res, exp));
    }
    // (flag-flipping scopes execute cli/sti themselves; the event filter below still holds)
    // nothing but flag reads, cli and sti may be executed
    if evs.iter().any(|e| !matches!(e, Ev::Pushf(_) | Ev::Cli | Ev::Sti)) {
        r.viol("C17|without_interrupts|executes-other-sensitive-instruction", &case, &format!("{:x?}", evs));
    }
    // non-flag system bits untouched
    if c.rflags_sys & !0x200 != 0x2 {
        r.viol("C17|without_interrupts|changes-other-flags", &case, &format!("{:#x}", c.rflags_sys));
    }
}

fn simple_ops(r: &mut Rep) {
    let c = cpu();
    for if0 in [false, true] {
        for other in [0x2u64, 0x2 | 0x3000 | 0x40000, 0x2 | 0x4000] {
            let start = other | if if0 { 0x200 } else { 0 };
            let case = format!("flagops {:#x}", start);
            // enable
            c.rflags_sys = start;
            c.clear_events();
            let _ = run_stepped(|| interrupts::enable());
            r.ev(true);
            if c.evs() != [Ev::Sti] || c.rflags_sys != start | 0x200 {
                r.viol("C17|enable|not-exactly-one-sti-or-other-bits-changed", &case, &format!("{:x?} {:#x}", c.evs(), c.rflags_sys));
            }
            c.rflags_sys = start;
            c.clear_events();
            let _ = run_stepped(|| interrupts::disable());
            r.ev(true);
            if c.evs() != [Ev::Cli] || c.rflags_sys != start & !0x200 {
                r.viol("C17|disable|not-exactly-one-cli-or-other-bits-changed", &case, &format!("{:x?} {:#x}", c.evs(), c.rflags_sys));
            }
            c.rflags_sys = start;
            c.clear_events();
            let v = run_stepped(|| interrupts::are_enabled());
            r.ev(true);
            if v != Ok(if0) || c.rflags_sys != start {
                r.viol("C17|are_enabled|does-not-report-the-flag", &case, &format!("{:?}", v));
            }
            // enable_and_hlt: sti immediately followed by hlt
            c.rflags_sys = start;
            c.clear_events();
            let _ = run_stepped(|| interrupts::enable_and_hlt());
            r.ev(true);
            let e = &c.events[..c.nev];
            let ok = e.len() == 2 && e[0].ev == Ev::Sti && e[1].ev == Ev::Hlt && e[1].rip == e[0].rip + e[0].len as u64 && c.rflags_sys == start | 0x200;
            if !ok {
                r.viol("C17|enable_and_hlt|sti-and-hlt-not-back-to-back", &case, &format!("{:x?}", e.iter().map(|x| (x.ev, x.rip)).collect::<Vec<_>>()));
            }
        }
    }
}


// ---------------------------------------------------------------------------------------------- placement of sti;hlt
/// enable_and_hlt inlined at 64 call sites whose code is shifted by 0..63 bytes of padding: whatever the address of the pair
/// (any offset within a cache line / alignment block), hlt is the very next instruction after sti
#[inline(never)]
fn hlt_site<const K: usize>() {
    unsafe { core::arch::asm!(".p2align 6", ".skip {k}, 0x90", k = const K, options(nomem, nostack, preserves_flags)) };
    interrupts::enable_and_hlt();
}
fn hlt_sites() -> Vec<fn()> {
    macro_rules! sites { ($($k:literal)*) => { vec![$(hlt_site::<$k> as fn()),*] }; }
    sites!(0 1 2 3 4 5 6 7 8 9 10 11 12 13 14 15 16 17 18 19 20 21 22 23 24 25 26 27 28 29 30 31 32 33 34 35 36 37 38 39 40 41 42 43 44 45 46 47 48 49 50 51 52 53 54 55 56 57 58 59 60 61 62 63)
}
/// enable() and disable() are one instruction each ("change nothing else")
fn flag_op_audit(r: &mut Rep) {
    #[inline(never)]
    fn en() { interrupts::enable() }
    #[inline(never)]
    fn dis() { interrupts::disable() }
    #[inline(never)]
    fn eh() { interrupts::enable_and_hlt() }
    #[inline(never)]
    fn rf() -> u64 { x86_64::registers::rflags::read_raw() }
    // reading the flags is `pushfq; pop r` and nothing else: in particular no load from below the stack pointer, where an
    // interrupt arriving in between would have put its frame
    crate::audit::audit_tiny(r, "C17", "rflags::read_raw", rf as usize as u64, 1, || { std::hint::black_box(rf()); });
    crate::audit::audit_tiny(r, "C17", "enable", en as usize as u64, 1, || en());
    crate::audit::audit_tiny(r, "C17", "disable", dis as usize as u64, 1, || dis());
    crate::audit::audit_tiny(r, "C17", "enable_and_hlt", eh as usize as u64, 2, || eh());
}

fn hlt_placement(r: &mut Rep) {
    let c = cpu();
    let mut residues = std::collections::BTreeSet::new();
    for (k, f) in hlt_sites().into_iter().enumerate() {
        c.rflags_sys = 0x2;
        c.clear_events();
        let _ = run_stepped(|| f());
        r.ev(true);
        let e = &c.events[..c.nev];
        let ok = e.len() == 2 && e[0].ev == Ev::Sti && e[1].ev == Ev::Hlt && e[1].rip == e[0].rip + e[0].len as u64 && c.rflags_sys == 0x202;
        if e.len() >= 1 {
            residues.insert(e[0].rip % 64);
        }
        if !ok {
            r.viol("C17|enable_and_hlt|sti-and-hlt-not-back-to-back-at-some-code-address", &format!("hltsite {}", k), &format!("{:x?}", e.iter().map(|x| (x.ev, x.rip)).collect::<Vec<_>>()));
        }
    }
    r.note(&format!("enable_and_hlt at 64 call sites: sti placed at {} distinct offsets modulo 64", residues.len()));
    if residues.len() < 64 && residues.len() > 1 {
        // (a single offset means enable_and_hlt was not inlined — the unoptimised profile — and has one address anyway)
        r.caps.push(format!("sti;hlt placement: only {} of 64 offsets modulo 64 were reached", residues.len()));
    }
}

// ---------------------------------------------------------------------------------------------- leaf-function call sites
// In optimised builds without_interrupts and its closure are inlined into the caller. If the caller then makes no call at
// all it is a leaf function and keeps its locals in the red zone below RSP without moving RSP; any stack use inside the
// crate's asm blocks that the compiler was not told about (a push under `nostack`) then overwrites those locals. Each shape
// below keeps N values alive across the call(s) and is compared with the same computation without the crate.
macro_rules! leaf_shape {
    ($name:ident, $refn:ident, $n:expr, $nested:expr) => {
        #[inline(never)]
        fn $name(seed: u64) -> u64 {
            let mut v = [0u64; $n];
            let mut x = seed;
            let mut i = 0;
            while i < $n {
                x = x.wrapping_mul(6364136223846793005).wrapping_add(1442695040888963407);
                v[i] = std::hint::black_box(x);
                i += 1;
            }
            let r = interrupts::without_interrupts(|| {
                let mut a = 0u64;
                let mut i = 0;
                while i < $n {
                    a = a.rotate_left(5) ^ v[i];
                    i += 1;
                }
                if $nested {
                    a ^= interrupts::without_interrupts(|| v[$n / 2].rotate_left(17) ^ v[0]);
                }
                a
            });
            let e = interrupts::are_enabled() as u64;
            let mut out = r ^ (e << 63) ^ (e << 63);
            let mut i = 0;
            while i < $n {
                out = out.wrapping_mul(31) ^ v[i];
                i += 1;
            }
            out
        }
        #[inline(never)]
        fn $refn(seed: u64) -> u64 {
            let mut v = [0u64; $n];
            let mut x = seed;
            for i in 0..$n {
                x = x.wrapping_mul(6364136223846793005).wrapping_add(1442695040888963407);
                v[i] = x;
            }
            let mut a = 0u64;
            for i in 0..$n {
                a = a.rotate_left(5) ^ v[i];
            }
            if $nested {
                a ^= v[$n / 2].rotate_left(17) ^ v[0];
            }
            let mut out = a;
            for i in 0..$n {
                out = out.wrapping_mul(31) ^ v[i];
            }
            out
        }
    };
}
leaf_shape!(leaf1, ref1, 1, false);
leaf_shape!(leaf2, ref2, 2, false);
leaf_shape!(leaf3, ref3, 3, true);
leaf_shape!(leaf4, ref4, 4, false);
leaf_shape!(leaf6, ref6, 6, true);
leaf_shape!(leaf8, ref8, 8, false);
leaf_shape!(leaf12, ref12, 12, true);
leaf_shape!(leaf15, ref15, 15, false);
leaf_shape!(leaf16, ref16, 16, true);
leaf_shape!(leaf17, ref17, 17, false);
leaf_shape!(leaf24, ref24, 24, true);
leaf_shape!(leaf40, ref40, 40, false);

/// scalar locals instead of an array (register pressure decides what is spilled where)
#[inline(never)]
fn leaf_scalars(s: u64) -> u64 {
    use std::hint::black_box as bb;
    let (a, b, c, d, e, f, g, h) = (bb(s ^ 1), bb(s ^ 2), bb(s ^ 3), bb(s ^ 4), bb(s ^ 5), bb(s ^ 6), bb(s ^ 7), bb(s ^ 8));
    let (i, j, k, l, m, n, o, p) = (bb(s ^ 9), bb(s ^ 10), bb(s ^ 11), bb(s ^ 12), bb(s ^ 13), bb(s ^ 14), bb(s ^ 15), bb(s ^ 16));
    let r = interrupts::without_interrupts(|| a.wrapping_add(b).wrapping_add(p));
    r ^ a ^ b.rotate_left(1) ^ c.rotate_left(2) ^ d.rotate_left(3) ^ e.rotate_left(4) ^ f.rotate_left(5) ^ g.rotate_left(6) ^ h.rotate_left(7)
        ^ i.rotate_left(8) ^ j.rotate_left(9) ^ k.rotate_left(10) ^ l.rotate_left(11) ^ m.rotate_left(12) ^ n.rotate_left(13) ^ o.rotate_left(14) ^ p.rotate_left(15)
}
fn ref_scalars(s: u64) -> u64 {
    let v: Vec<u64> = (1..=16u64).map(|k| s ^ k).collect();
    let r = v[0].wrapping_add(v[1]).wrapping_add(v[15]);
    (0..16).fold(r, |acc, k| acc ^ v[k].rotate_left(k as u32))
}

/// 1000 scopes in a row (and 300 nested pairs): scope number k behaves like scope number 1
#[allow(static_mut_refs)]
fn repetition(r: &mut Rep) {
    for if0 in [false, true] {
        let c = cpu();
        c.rflags_sys = if if0 { 0x202 } else { 0x2 };
        c.clear_events();
        unsafe { OBS = Obs { bodies: 0, if_in_body_nonzero: 0, if_not_restored: 0 } };
        let res = run_stepped(|| {
            let mut acc = 0u64;
            for k in 0..1000u64 {
                let before = cpu().interrupts_enabled();
                acc = acc.rotate_left(3) ^ interrupts::without_interrupts(|| {
                    unsafe {
                        OBS.bodies += 1;
                        if cpu().interrupts_enabled() {
                            OBS.if_in_body_nonzero += 1;
                        }
                    }
                    if k % 3 == 0 { interrupts::without_interrupts(|| k ^ 0x55) } else { k }
                });
                if cpu().interrupts_enabled() != before {
                    unsafe { OBS.if_not_restored += 1 };
                }
            }
            acc
        });
        let exp = (0..1000u64).fold(0u64, |acc, k| acc.rotate_left(3) ^ if k % 3 == 0 { k ^ 0x55 } else { k });
        let o = unsafe { &OBS };
        r.ev(true);
        r.transitions += c.evs().len() as u64;
        if res != Ok(exp) || o.bodies != 1000 || o.if_in_body_nonzero != 0 || o.if_not_restored != 0 || c.interrupts_enabled() != if0 {
            r.viol("C17|without_interrupts|scope-number-k-differs-from-the-first-scope", &format!("repeat {}", if0 as u8), &format!("result ok {} bodies {} enabled-in-body {} not-restored {}", res == Ok(exp), o.bodies, o.if_in_body_nonzero, o.if_not_restored));
        }
    }
}

/// "returning the closure's result", for results and captured values that own something: the caller receives the one value the
/// closure produced - it is not destroyed before the caller gets it, not destroyed twice, and what the closure captured by value
/// is destroyed exactly once; at nesting depths 1..4, with the flag clear and set
fn result_ownership(r: &mut Rep) {
    use std::sync::atomic::{AtomicU32, Ordering::SeqCst};
    static MADE: AtomicU32 = AtomicU32::new(0);
    static DROPS: AtomicU32 = AtomicU32::new(0);
    static DROPS_WHILE_HELD: AtomicU32 = AtomicU32::new(0);
    static HELD: AtomicU32 = AtomicU32::new(0);
    struct Tok(u64);
    impl Tok {
        fn new(v: u64) -> Tok {
            MADE.fetch_add(1, SeqCst);
            Tok(v)
        }
    }
    impl Drop for Tok {
        fn drop(&mut self) {
            DROPS.fetch_add(1, SeqCst);
            if HELD.load(SeqCst) == 1 {
                DROPS_WHILE_HELD.fetch_add(1, SeqCst);
            }
        }
    }
    #[inline(never)]
    fn nest(depth: u32, v: u64) -> (Tok, Option<Tok>) {
        if depth == 0 {
            (Tok::new(v), Some(Tok::new(!v)))
        } else {
            let cap = Tok::new(v ^ 0x77);
            interrupts::without_interrupts(move || {
                let inner = nest(depth - 1, v ^ cap.0);
                (Tok::new(inner.0 .0 ^ cap.0), inner.1)
            })
        }
    }
    for if0 in [false, true] {
        for depth in 1..=4u32 {
            let c = cpu();
            c.rflags_sys = if if0 { 0x202 } else { 0x2 };
            c.clear_events();
            MADE.store(0, SeqCst);
            DROPS.store(0, SeqCst);
            DROPS_WHILE_HELD.store(0, SeqCst);
            HELD.store(0, SeqCst);
            let res = run_stepped(|| {
                let got = nest(depth, 0x1234_5678_9abc_def0);
                // from here on the caller owns the result: nothing may destroy it until the caller lets go
                HELD.store(1, SeqCst);
                let vals = (got.0 .0, got.1.as_ref().map(|t| t.0));
                let alive_before_release = MADE.load(SeqCst) - DROPS.load(SeqCst);
                HELD.store(0, SeqCst);
                drop(got);
                (vals, alive_before_release)
            });
            r.ev(true);
            r.transitions += c.evs().len() as u64;
            // reference: values and object counts from the same program without the sections
            let mut v = 0x1234_5678_9abc_def0u64;
            let mut caps = vec![];
            for _ in 0..depth {
                caps.push(v ^ 0x77);
                v ^= v ^ 0x77;
            }
            let mut top = v;
            for cap in caps.iter().rev() {
                top ^= cap;
            }
            let exp_vals = (top, Some(!v));
            let made = 2 + 2 * depth; // innermost pair + per level one captured token and one result token
            let ok = match res {
                Ok((vals, alive)) => vals == exp_vals && alive == 2 && MADE.load(SeqCst) == made && DROPS.load(SeqCst) == made && DROPS_WHILE_HELD.load(SeqCst) == 0,
                Err(()) => false,
            };
            if !ok || c.interrupts_enabled() != if0 {
                r.viol("C17|without_interrupts|result-or-captured-value-is-not-handed-over-exactly-once-(destroyed-early-twice-or-never)", &format!("own {} {}", if0 as u8, depth),
                       &format!("{:x?} expected {:x?}; created {} destroyed {} (expected {}), destroyed while the caller held the result {}", res, exp_vals, MADE.load(SeqCst), DROPS.load(SeqCst), made, DROPS_WHILE_HELD.load(SeqCst)));
            }
        }
    }
}

// Results that live in the arithmetic flags: the closure's last operation sets the flags its result is read from (decrement to
// zero, carry of an addition, a comparison, an atomic decrement) and the caller branches on the result right after the section.
#[inline(never)]
fn flag_result_taken(out: &mut [u64; 2]) {
    unsafe { core::ptr::write_volatile(&mut out[1], 0xaaaa) };
}
macro_rules! flag_result_site {
    ($name:ident, |$a:ident, $b:ident| $body:expr) => {
        #[inline(never)]
        fn $name($a: *mut u64, $b: u64) -> u64 {
            // a raw pointer: the cell may be visible to an interrupt handler, so its accesses stay inside the section
            #[allow(unused_unsafe)]
            let hit: bool = interrupts::without_interrupts(|| unsafe { $body });
            let mut out = [0u64; 2];
            if hit {
                unsafe { core::ptr::write_volatile(&mut out[0], 1) };
                flag_result_taken(&mut out);
            } else {
                unsafe { core::ptr::write_volatile(&mut out[1], 0x5555) };
            }
            unsafe { core::ptr::read_volatile(&out[1]) }
        }
    };
}
flag_result_site!(fr_dec, |a, _b| { *a -= 1; *a == 0 });
flag_result_site!(fr_carry, |a, b| { let (s, c) = (*a).overflowing_add(b); *a = s; c });
flag_result_site!(fr_less, |a, b| *a < b);
flag_result_site!(fr_atomic, |a, _b| std::sync::atomic::AtomicU64::from_ptr(a).fetch_sub(1, std::sync::atomic::Ordering::SeqCst) == 1);
flag_result_site!(fr_and, |a, b| { *a &= b; *a == 0 });
flag_result_site!(fr_signed, |a, b| { *a = (*a).wrapping_sub(b); (*a as i64) < 0 });

fn flag_results(r: &mut Rep) {
    let sites: &[(&str, fn(*mut u64, u64) -> u64, fn(u64, u64) -> bool)] = &[
        ("decrement-to-zero", fr_dec, |a, _| a - 1 == 0),
        ("carry", fr_carry, |a, b| a.checked_add(b).is_none()),
        ("less-than", fr_less, |a, b| a < b),
        ("atomic-decrement-to-zero", fr_atomic, |a, _| a == 1),
        ("and-is-zero", fr_and, |a, b| a & b == 0),
        ("difference-negative", fr_signed, |a, b| (a.wrapping_sub(b) as i64) < 0),
    ];
    for &(name, f, want) in sites {
        for if0 in [false, true] {
            for (a, b) in [(1u64, 1u64), (2, 1), (3, 5), (u64::MAX, 1), (u64::MAX, 0), (0xf0, 0x0f), (0xf0, 0x10), (5, 3), (1, 2)] {
                let c = cpu();
                c.rflags_sys = if if0 { 0x202 } else { 0x2 };
                c.clear_events();
                use std::hint::black_box as bb;
                let mut cell = bb(a);
                let res = run_stepped(|| f(&mut cell, bb(b)));
                r.ev(true);
                r.transitions += c.evs().len() as u64;
                let exp = if want(a, b) { 0xaaaa } else { 0x5555 };
                if res != Ok(exp) || c.interrupts_enabled() != if0 {
                    r.viol("C17|without_interrupts|result-that-the-closure-left-in-the-arithmetic-flags-reaches-the-caller-wrong", &format!("flagresult {} {} {:#x} {:#x}", name, if0 as u8, a, b), &format!("{:x?} expected {:#x}", res, exp));
                }
            }
        }
    }
}

fn leaf_shapes(r: &mut Rep) {
    let shapes: &[(&str, fn(u64) -> u64, fn(u64) -> u64)] = &[
        ("leaf1", leaf1, ref1), ("leaf2", leaf2, ref2), ("leaf3n", leaf3, ref3), ("leaf4", leaf4, ref4), ("leaf6n", leaf6, ref6), ("leaf8", leaf8, ref8),
        ("leaf12n", leaf12, ref12), ("leaf15", leaf15, ref15), ("leaf16n", leaf16, ref16), ("leaf17", leaf17, ref17), ("leaf24n", leaf24, ref24),
        ("leaf40", leaf40, ref40), ("leaf-scalars", leaf_scalars, ref_scalars),
    ];
    for &(name, f, g) in shapes {
        for if0 in [false, true] {
            for seed in [0u64, 1, 0x0000_0000_0000_0206, 0xdead_beef_0123_4567, u64::MAX] {
                let c = cpu();
                c.rflags_sys = if if0 { 0x202 } else { 0x2 };
                c.clear_events();
                let res = run_stepped(|| f(std::hint::black_box(seed)));
                let after = c.interrupts_enabled();
                r.ev(true);
                r.transitions += c.evs().len() as u64;
                let case = format!("leaf {} {} {:#x}", name, if0 as u8, seed);
                if res != Ok(g(seed)) {
                    r.viol("C17|without_interrupts|result-or-captured-data-corrupted-in-a-leaf-caller", &case, &format!("{:x?} expected {:#x}", res, g(seed)));
                }
                if after != if0 {
                    r.viol("C17|without_interrupts|interrupt-flag-not-restored-in-a-leaf-caller", &case, "");
                }
            }
        }
    }
}

pub fn run(a: &Args) {
    crate::simcpu::init();
    let mut r = Rep::new("C17", "interrupt-flag-step-mode");
    if let Some(c) = &a.replay {
        let t: Vec<&str> = c.split_whitespace().collect();
        if t[0] == "prog" {
            let mut pos = 0;
            let tree = parse(t[1].as_bytes(), &mut pos);
            program_case(&mut r, &tree, t[2] == "1", u64::from_str_radix(t[3].trim_start_matches("0x"), 16).unwrap());
        } else if t[0] == "audit" {
            flag_op_audit(&mut r);
        } else if t[0] == "hltsite" {
            hlt_placement(&mut r);
        } else if t[0] == "repeat" {
            repetition(&mut r);
        } else if t[0] == "leaf" {
            leaf_shapes(&mut r);
        } else if t[0] == "own" {
            result_ownership(&mut r);
        } else if t[0] == "flagresult" {
            flag_results(&mut r);
        } else {
            simple_ops(&mut r);
        }
        r.emit();
        return;
    }
    // all trees: depth <= 3 with <= 2 siblings, depth <= 2 with <= 3 siblings, plus deep chains
    let mut progs = gen(3, 2);
    progs.extend(gen(2, 3));
    if a.thorough() {
        progs.extend(gen(2, 4));
        progs.extend(gen(4, 1));
    }
    let mut chain = wi(vec![]);
    for d in 1..=1000 {
        chain = wi(vec![chain]);
        // "for every nesting depth": every depth to 8, then depths around every power of two up to 1024 (a counter of open
        // sections narrower than the nesting depth would wrap there)
        if d <= 8 || matches!(d, 16 | 64 | 255 | 256 | 257 | 300) || (a.thorough() && matches!(d, 15 | 17 | 31 | 32 | 33 | 63 | 65 | 127 | 128 | 129 | 254 | 511 | 512 | 513 | 1000)) {
            progs.push(chain.clone());
        }
    }
    // programs with flag-flipping scopes: all trees of depth <= 2 with <= 2 siblings over {WI, Flip}, and every chain of length <= 5
    fn gen2(depth: u32) -> Vec<Tree> {
        if depth == 0 {
            return vec![Tree(vec![], false)];
        }
        let sub = gen2(depth - 1);
        let mut kids: Vec<Tree> = vec![];
        for s in &sub {
            kids.push(Tree(s.0.clone(), false));
            kids.push(Tree(s.0.clone(), true));
        }
        let mut out = vec![Tree(vec![], false)];
        for a in &kids {
            out.push(Tree(vec![a.clone()], false));
            for b in &kids {
                out.push(Tree(vec![a.clone(), b.clone()], false));
            }
        }
        out
    }
    progs.extend(gen2(2));
    for len in 1..=5u32 {
        for mask in 0..(1u32 << len) {
            let mut t = Tree(vec![], false);
            for k in 0..len {
                t = Tree(vec![Tree(t.0.clone(), mask >> k & 1 == 1)], false);
            }
            progs.push(t);
        }
    }
    let mut seen = std::collections::BTreeSet::new();
    progs.retain(|t| seen.insert(show(t)));
    for (i, t) in progs.iter().enumerate() {
        if i % a.nshards != a.shard {
            continue;
        }
        for if0 in [false, true] {
            let deep = show(t).len() > 40;
            for seed in [0u64, 0xdead_beef_0123_4567] {
                if deep && seed != 0 {
                    continue; // deep chains: one result seed
                }
                guarded(&mut r, "C17|without_interrupts|unexpected-panic", || format!("prog {} {} {:#x}", show(t), if0 as u8, seed), |r| program_case(r, t, if0, seed));
            }
        }
    }
    if a.shard == 0 {
        guarded(&mut r, "C17|enable/disable/are_enabled|unexpected-panic", || "flagops".into(), |r| simple_ops(r));
        guarded(&mut r, "C17|without_interrupts|unexpected-panic", || "leaf".into(), |r| leaf_shapes(r));
        guarded(&mut r, "C17|without_interrupts|unexpected-panic", || "own".into(), |r| result_ownership(r));
        guarded(&mut r, "C17|without_interrupts|unexpected-panic", || "flagresult".into(), |r| flag_results(r));
    }
    if a.shard == 2 % a.nshards {
        guarded(&mut r, "C17|enable_and_hlt|unexpected-panic", || "hltsite".into(), |r| hlt_placement(r));
        guarded(&mut r, "C17|enable/disable|unexpected-panic", || "audit".into(), |r| flag_op_audit(r));
    }
    if a.shard == 1 % a.nshards {
        guarded(&mut r, "C17|without_interrupts|unexpected-panic", || "repeat".into(), |r| repetition(r));
    }
    r.states = r.evals;
    r.exhaustive = true;
    r.sample("prog (()(()())) 1 0x0   — without_interrupts(|| {}) ; without_interrupts(|| { wi(||{}); wi(||{}) })".into());
    r.note(&format!("{} distinct nesting programs (all trees of depth<=3 with <=2 siblings, depth<=2 with <=3 siblings, chains to depth 8) x IF in {{0,1}} x 2 result seeds; {} instructions single-stepped", progs.len(), cpu().steps));
    r.emit();
}
