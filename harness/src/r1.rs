//! R1 (abstract page-tree model driven by the history of successful calls) and R2 (independent hardware-style walk of raw memory).
use crate::simphys::{Sim, L4_FRAME, NF};
use std::collections::BTreeMap;

pub const FLAG_MASK: u64 = 0xfff0_0000_0000_0fff;
pub const ADDR_MASK: u64 = 0x000f_ffff_ffff_f000;
pub const P: u64 = 1;
pub const W: u64 = 2;
pub const U: u64 = 4;
pub const HUGE: u64 = 0x80;

pub fn sext(x: u64) -> u64 {
    (((x << 16) as i64) >> 16) as u64
}
/// size code: 0 = 4 KiB, 1 = 2 MiB, 2 = 1 GiB
pub fn size_of(sz: u8) -> u64 {
    [0x1000, 0x20_0000, 0x4000_0000][sz as usize]
}
/// level of the table that holds the leaf entry of a page of size sz
pub fn leaf_level(sz: u8) -> u8 {
    sz + 1
}
/// bytes covered by one entry of a level-l table
pub fn entry_span(level: u8) -> u64 {
    1u64 << (12 + 9 * (level as u32 - 1))
}
/// bytes covered by a whole level-l table
pub fn table_span(level: u8) -> u64 {
    1u64 << (12 + 9 * level as u32)
}
pub fn idx(va: u64, level: u8) -> usize {
    ((va >> (12 + 9 * (level as u32 - 1))) & 0x1ff) as usize
}
pub fn base_of(va: u64, span: u64) -> u64 {
    sext(va & !(span - 1) & 0xffff_ffff_ffff)
}

#[derive(Clone, PartialEq, Eq, Hash, Debug, Default)]
pub struct R1 {
    /// (level 3|2|1, canonical base of the region the table covers) -> frame index
    pub tables: BTreeMap<(u8, u64), u16>,
    /// (size code, page start) -> (physical address, entry flags incl. HUGE for huge leaves)
    pub leaves: BTreeMap<(u8, u64), (u64, u64)>,
}

#[derive(Clone, Copy, PartialEq, Eq, Debug)]
pub enum Slot {
    Empty,
    Table(u16),
    Leaf(u64, u64),
}

impl R1 {
    /// what the slot for `va` in the level-`level` table holds (level 4 = root table)
    pub fn slot(&self, va: u64, level: u8) -> Slot {
        // a child table of level-1, or a leaf whose leaf level == level
        if level >= 2 {
            if let Some(&f) = self.tables.get(&(level - 1, base_of(va, table_span(level - 1)))) {
                return Slot::Table(f);
            }
        }
        if level <= 3 {
            let sz = level - 1;
            if let Some(&(p, fl)) = self.leaves.get(&(sz, base_of(va, size_of(sz)))) {
                return Slot::Leaf(p, fl);
            }
        }
        Slot::Empty
    }
    pub fn table_exists(&self, va: u64, level: u8) -> bool {
        level == 4 || self.tables.contains_key(&(level, base_of(va, table_span(level))))
    }
    /// translation dictated by the history: (page start, size code, phys of page start, flags)
    pub fn translate(&self, va: u64) -> Option<(u64, u8, u64, u64)> {
        for sz in 0..3u8 {
            let b = base_of(va, size_of(sz));
            if let Some(&(p, fl)) = self.leaves.get(&(sz, b)) {
                return Some((b, sz, p, fl));
            }
        }
        None
    }
    /// number of entries (child tables + leaves) in the table (level, base)
    pub fn table_len(&self, level: u8, base: u64) -> usize {
        let end = base.wrapping_add(table_span(level) - 1);
        let mut n = 0;
        if level >= 2 {
            n += self.tables.range((level - 1, base)..=(level - 1, end)).count();
        }
        let sz = level - 1;
        n += self.leaves.range((sz, base)..=(sz, end)).count();
        n
    }
    pub fn frame_table(&self, frame: u16) -> Option<(u8, u64)> {
        self.tables.iter().find(|(_, &f)| f == frame).map(|(k, _)| *k)
    }
}

// ------------------------------------------------------------------------------------------------ R2

#[derive(Debug, Default, Clone, PartialEq, Eq)]
pub struct Tree {
    pub tables: BTreeMap<(u8, u64), u16>,
    pub leaves: BTreeMap<(u8, u64), (u64, u64)>,
    /// parent-entry flags of every table link: (level of the child table, base) -> flags of the entry pointing to it
    pub link_flags: BTreeMap<(u8, u64), u64>,
    pub malformed: Vec<String>,
    pub structural: bool,
    /// number of non-zero entries without PRESENT seen by a structural walk
    pub nonpresent: u32,
}

/// Independent SDM-style traversal of the raw memory (oracle view): PML4E -> PDPTE(PS) -> PDE(PS) -> PTE.
pub fn walk_all(sim: &Sim, skip_l4_slot: Option<usize>) -> Tree {
    walk_all_mode(sim, skip_l4_slot, false)
}
/// structural = follow non-zero entries even when PRESENT is clear (the crate's own notion of a used entry, C08)
pub fn walk_all_mode(sim: &Sim, skip_l4_slot: Option<usize>, structural: bool) -> Tree {
    let mut t = Tree::default();
    t.structural = structural;
    fn rec(sim: &Sim, t: &mut Tree, frame: usize, level: u8, base: u64, skip: Option<usize>, depth_guard: u32) {
        if depth_guard > 4 {
            t.malformed.push("table loop".into());
            return;
        }
        for i in 0..512usize {
            if level == 4 && skip == Some(i) {
                continue;
            }
            let e = sim.read(frame, i);
            if e == 0 {
                continue;
            }
            let va = sext(base.wrapping_add(i as u64 * entry_span(level)) & 0xffff_ffff_ffff);
            if e & P == 0 {
                if !t.structural {
                    t.malformed.push(format!("non-zero non-present entry {:#x} at level {} va {:#x}", e, level, va));
                    continue;
                }
                t.nonpresent += 1;
            }
            let addr = e & ADDR_MASK;
            let fl = e & FLAG_MASK;
            if level == 1 {
                t.leaves.insert((0, va), (addr, fl));
                continue;
            }
            if e & HUGE != 0 {
                if level == 4 {
                    t.malformed.push(format!("PS bit in a level-4 entry {:#x} va {:#x}", e, va));
                    continue;
                }
                let sz = level - 1;
                // bits 13..(20|29) of a large-page entry are reserved (bit 12 is PAT)
                let span = size_of(sz);
                if addr & (span - 1) & !0x1000 != 0 {
                    t.malformed.push(format!("large-page entry {:#x} at level {} va {:#x} has reserved address bits set", e, level, va));
                    continue;
                }
                t.leaves.insert((sz, va), (addr & !(span - 1), fl));
                continue;
            }
            match sim.frame_of_phys(addr) {
                None => t.malformed.push(format!("level-{} entry {:#x} (va {:#x}) points outside simulated memory", level, e, va)),
                Some(nf) => {
                    if nf == L4_FRAME {
                        t.malformed.push(format!("level-{} entry (va {:#x}) points back to the level-4 table", level, va));
                        continue;
                    }
                    if let Some(prev) = t.tables.iter().find(|(_, &f)| f as usize == nf) {
                        t.malformed.push(format!("frame {} linked twice (also as {:?})", nf, prev.0));
                        continue;
                    }
                    t.tables.insert((level - 1, va), nf as u16);
                    t.link_flags.insert((level - 1, va), fl);
                    rec(sim, t, nf, level - 1, va, skip, depth_guard + 1);
                }
            }
        }
    }
    rec(sim, &mut t, L4_FRAME, 4, 0, skip_l4_slot, 0);
    let _ = NF;
    t
}

/// single-address walk as the MMU would do it: Some((page start, size, phys, leaf flags, effective W, effective U))
pub fn walk_one(sim: &Sim, va: u64) -> Result<Option<(u64, u8, u64, u64, bool, bool)>, String> {
    let mut frame = L4_FRAME;
    let (mut w, mut u) = (true, true);
    for level in (1..=4u8).rev() {
        let e = sim.read(frame, idx(va, level));
        if e & P == 0 {
            return Ok(None);
        }
        w &= e & W != 0;
        u &= e & U != 0;
        let addr = e & ADDR_MASK;
        if level == 1 {
            return Ok(Some((base_of(va, 0x1000), 0, addr, e & FLAG_MASK, w, u)));
        }
        if e & HUGE != 0 {
            if level == 4 {
                return Err("PS in level-4 entry".into());
            }
            let sz = level - 1;
            let span = size_of(sz);
            if addr & (span - 1) & !0x1000 != 0 {
                return Err(format!("reserved bits in large-page entry {:#x}", e));
            }
            return Ok(Some((base_of(va, span), sz, addr & !(span - 1), e & FLAG_MASK, w, u)));
        }
        match sim.frame_of_phys(addr) {
            Some(nf) => frame = nf,
            None => return Err(format!("entry {:#x} points outside simulated memory", e)),
        }
    }
    unreachable!()
}
