//! C07 — address arithmetic is exact-or-panic; ranges iterate exactly what they count.
use crate::b64::*;
use crate::out::*;
use crate::Args;
use x86_64::structures::paging::{Page, PageSize, PhysFrame, Size1GiB, Size2MiB, Size4KiB};
use x86_64::{PhysAddr, VirtAddr};

fn va(x: u64) -> VirtAddr {
    VirtAddr::new(x)
}
fn pa(x: u64) -> PhysAddr {
    PhysAddr::new(x)
}

/// outcome of an operation: Some(value) or None = panicked
type Oc = Option<u64>;

/// reference: exact result as i128; valid(result) tells whether it is representable.
fn judge(r: &mut Rep, ty: &str, op: &str, a: u64, b: u64, got: Oc, exact: i128, valid: bool) {
    let nontrivial = !valid || exact as u128 > (1u128 << 47);
    r.ev(nontrivial);
    match got {
        None => {
            r.bucket(if valid { "panic-on-representable" } else { "panic" });
        }
        Some(g) => {
            if !(valid && exact == g as i128) {
                let kind = if !valid { "returned-value-where-exact-result-unrepresentable" } else { "wrong-value" };
                r.viol(
                    &format!("C07|{}|{}|{}|{}", ty, op, kind, profile()),
                    &format!("arith {} {} {:#x} {:#x}", ty, op, a, b),
                    &format!("got {:#x}, exact {:#x} (representable={})", g, exact, valid),
                );
            } else {
                r.bucket("exact");
            }
        }
    }
}

pub fn arith_virt(r: &mut Rep, op: &str, a: u64, b: u64) {
    let x = va(a);
    let (got, exact): (Oc, i128) = match op {
        "add" => (catch(|| (x + b).as_u64()).ok(), a as i128 + b as i128),
        "add_assign" => (
            catch(|| {
                let mut y = x;
                y += b;
                y.as_u64()
            })
            .ok(),
            a as i128 + b as i128,
        ),
        "sub" => (catch(|| (x - b).as_u64()).ok(), a as i128 - b as i128),
        "sub_assign" => (
            catch(|| {
                let mut y = x;
                y -= b;
                y.as_u64()
            })
            .ok(),
            a as i128 - b as i128,
        ),
        _ => unreachable!(),
    };
    let valid = exact >= 0 && exact < (1i128 << 64) && is_canon(exact as u64);
    judge(r, "VirtAddr", op, a, b, got, exact, valid);
}
pub fn arith_virt_diff(r: &mut Rep, a: u64, b: u64) {
    let got = catch(|| va(a) - va(b)).ok();
    let exact = a as i128 - b as i128;
    judge(r, "VirtAddr", "diff", a, b, got, exact, exact >= 0);
}
pub fn arith_phys(r: &mut Rep, op: &str, a: u64, b: u64) {
    let x = pa(a);
    let (got, exact): (Oc, i128) = match op {
        "add" => (catch(|| (x + b).as_u64()).ok(), a as i128 + b as i128),
        "add_assign" => (
            catch(|| {
                let mut y = x;
                y += b;
                y.as_u64()
            })
            .ok(),
            a as i128 + b as i128,
        ),
        "sub" => (catch(|| (x - b).as_u64()).ok(), a as i128 - b as i128),
        "sub_assign" => (
            catch(|| {
                let mut y = x;
                y -= b;
                y.as_u64()
            })
            .ok(),
            a as i128 - b as i128,
        ),
        _ => unreachable!(),
    };
    let valid = exact >= 0 && exact < (1i128 << 52);
    judge(r, "PhysAddr", op, a, b, got, exact, valid);
}
pub fn arith_phys_diff(r: &mut Rep, a: u64, b: u64) {
    let got = catch(|| pa(a) - pa(b)).ok();
    let exact = a as i128 - b as i128;
    judge(r, "PhysAddr", "diff", a, b, got, exact, exact >= 0);
}

pub fn arith_page<S: PageSize>(r: &mut Rep, op: &str, a: u64, n: u64) {
    let p = Page::<S>::from_start_address(va(a)).unwrap();
    let ty = format!("Page<{}>", S::DEBUG_STR);
    let d = n as i128 * S::SIZE as i128;
    let (got, exact): (Oc, i128) = match op {
        "add" => (catch(|| (p + n).start_address().as_u64()).ok(), a as i128 + d),
        "add_assign" => (
            catch(|| {
                let mut y = p;
                y += n;
                y.start_address().as_u64()
            })
            .ok(),
            a as i128 + d,
        ),
        "sub" => (catch(|| (p - n).start_address().as_u64()).ok(), a as i128 - d),
        "sub_assign" => (
            catch(|| {
                let mut y = p;
                y -= n;
                y.start_address().as_u64()
            })
            .ok(),
            a as i128 - d,
        ),
        _ => unreachable!(),
    };
    let valid = exact >= 0 && exact < (1i128 << 64) && is_canon(exact as u64);
    judge(r, &ty, op, a, n, got, exact, valid);
}
pub fn arith_page_diff<S: PageSize>(r: &mut Rep, a: u64, b: u64) {
    let p = Page::<S>::from_start_address(va(a)).unwrap();
    let q = Page::<S>::from_start_address(va(b)).unwrap();
    let got = catch(|| p - q).ok();
    let exact = (a as i128 - b as i128) / S::SIZE as i128;
    judge(r, &format!("Page<{}>", S::DEBUG_STR), "diff", a, b, got, exact, a >= b);
}
pub fn arith_frame<S: PageSize>(r: &mut Rep, op: &str, a: u64, n: u64) {
    let p = PhysFrame::<S>::from_start_address(pa(a)).unwrap();
    let ty = format!("PhysFrame<{}>", S::DEBUG_STR);
    let d = n as i128 * S::SIZE as i128;
    let (got, exact): (Oc, i128) = match op {
        "add" => (catch(|| (p + n).start_address().as_u64()).ok(), a as i128 + d),
        "add_assign" => (
            catch(|| {
                let mut y = p;
                y += n;
                y.start_address().as_u64()
            })
            .ok(),
            a as i128 + d,
        ),
        "sub" => (catch(|| (p - n).start_address().as_u64()).ok(), a as i128 - d),
        "sub_assign" => (
            catch(|| {
                let mut y = p;
                y -= n;
                y.start_address().as_u64()
            })
            .ok(),
            a as i128 - d,
        ),
        _ => unreachable!(),
    };
    let valid = exact >= 0 && exact < (1i128 << 52);
    judge(r, &ty, op, a, n, got, exact, valid);
}
pub fn arith_frame_diff<S: PageSize>(r: &mut Rep, a: u64, b: u64) {
    let p = PhysFrame::<S>::from_start_address(pa(a)).unwrap();
    let q = PhysFrame::<S>::from_start_address(pa(b)).unwrap();
    let got = catch(|| p - q).ok();
    let exact = (a as i128 - b as i128) / S::SIZE as i128;
    judge(r, &format!("PhysFrame<{}>", S::DEBUG_STR), "diff", a, b, got, exact, a >= b);
}

const OPS: [&str; 4] = ["add", "add_assign", "sub", "sub_assign"];

fn counts_for(size: u64) -> Vec<u64> {
    let mut v = b64();
    for x in b64() {
        v.push(x / size);
        v.push((x / size).wrapping_add(1));
        v.push((x / size).wrapping_sub(1));
    }
    v.sort_unstable();
    v.dedup();
    v
}

fn sweep_pages<S: PageSize>(r: &mut Rep, a: &Args) {
    let mut starts: Vec<u64> = canon().into_iter().map(|x| x & !(S::SIZE - 1)).collect();
    starts.sort_unstable();
    starts.dedup();
    let counts = counts_for(S::SIZE);
    for (i, &s) in starts.iter().enumerate() {
        if i % a.nshards != a.shard {
            continue;
        }
        for &n in &counts {
            for op in OPS {
                arith_page::<S>(r, op, s, n);
            }
        }
        for &t in &starts {
            arith_page_diff::<S>(r, s, t);
        }
    }
    let mut fstarts: Vec<u64> = phys().into_iter().map(|x| x & !(S::SIZE - 1)).collect();
    fstarts.sort_unstable();
    fstarts.dedup();
    for (i, &s) in fstarts.iter().enumerate() {
        if i % a.nshards != a.shard {
            continue;
        }
        for &n in &counts {
            for op in OPS {
                arith_frame::<S>(r, op, s, n);
            }
        }
        for &t in &fstarts {
            arith_frame_diff::<S>(r, s, t);
        }
    }
}

// ---------------------------------------------------------------- ranges

/// Walk an iterator with every `next()` guarded; returns (items, panicked_at)
fn drain<I: Iterator<Item = u64>>(mut it: I, cap: usize) -> (Vec<u64>, Option<usize>) {
    let mut v = Vec::new();
    loop {
        if v.len() > cap {
            return (v, None);
        }
        let it_ref = &mut it;
        match catch(move || it_ref.next()) {
            Err(()) => return (v.clone(), Some(v.len())),
            Ok(None) => return (v, None),
            Ok(Some(x)) => v.push(x),
        }
    }
}

/// A range is also a value with state: after k calls of next() (k = 1, n/2, n-1, n, n+2) what is left is itself a range —
/// its len/size/is_empty describe the remaining items, it yields exactly those, and once exhausted it stays exhausted.
fn partial<I: Iterator + Clone>(r: &mut Rep, sigbase: &str, case: &str, anchor: &str, it: I, rd: impl Fn(I::Item) -> u64 + Copy, meta: impl Fn(&I) -> (u64, u64, bool), expect: &[u64], size: u64) {
    let n = expect.len();
    let mut ks = vec![1usize, n / 2, n.saturating_sub(1), n, n + 2];
    ks.sort_unstable();
    ks.dedup();
    for k in ks {
        let g = catch(|| {
            let mut j = it.clone();
            for _ in 0..k {
                let _ = j.next();
            }
            let m = meta(&j);
            let rest: Vec<u64> = j.clone().take(n + 2).map(rd).collect();
            let again = j.clone().next().map(rd);
            (m, rest, again)
        });
        let left = n.saturating_sub(k);
        let exp_rest: Vec<u64> = expect.iter().copied().skip(k).collect();
        let exp = ((left as u64, left as u64 * size, left == 0), exp_rest.clone(), exp_rest.first().copied());
        if g != Ok(exp) {
            r.viol(&format!("{}|partially-consumed-range-does-not-describe-its-remaining-items|{}", sigbase, anchor), case, &format!("after {} of {} next() calls: {:x?}", k, n, g.map(|(m, rest, _)| (m, rest.len()))));
        }
    }
}

/// Every provided Iterator method a range type could override (nth, skip, step_by, count, last, size_hint, fold, min, max)
/// must agree with plain next(): same items, no panic.
fn adapters<I: Iterator + Clone>(r: &mut Rep, sigbase: &str, case: &str, anchor: &str, it: I, rd: impl Fn(I::Item) -> u64 + Copy, expect: &[u64])
where
    I::Item: Ord,
{
    // adapters are applied to the range type itself (Map does not forward nth/count/last to the inner iterator)
    let n = expect.len();
    let mut bad = |what: &str, d: String| r.viol(&format!("{}|{}-disagrees-with-next-or-panics|{}", sigbase, what, anchor), case, &d);
    match catch(|| it.clone().size_hint()) {
        Ok((lo, hi)) if lo <= n && hi.map_or(true, |h| h >= n) => {}
        o => bad("size_hint", format!("{:?} for {} items", o, n)),
    }
    if catch(|| it.clone().count()) != Ok(n) {
        bad("count", format!("{:?} vs {}", catch(|| it.clone().count()), n));
    }
    if catch(|| it.clone().last().map(rd)) != Ok(expect.last().copied()) {
        bad("last", String::new());
    }
    if catch(|| it.clone().fold(0u64, |a, x| a.wrapping_mul(31).wrapping_add(rd(x)))) != Ok(expect.iter().fold(0u64, |a, &x| a.wrapping_mul(31).wrapping_add(x))) {
        bad("fold", String::new());
    }
    if catch(|| (it.clone().min().map(rd), it.clone().max().map(rd))) != Ok((expect.iter().copied().min(), expect.iter().copied().max())) {
        bad("min/max", String::new());
    }
    let mut ks: Vec<usize> = vec![0, 1, 2, 3, n.saturating_sub(1), n, n + 1, n + 3, 2 * n + 5, 511, 512, 1 << 20, usize::MAX];
    ks.sort_unstable();
    ks.dedup();
    for &k in &ks {
        // nth(k), then the remainder
        let g = catch(|| {
            let mut j = it.clone();
            let x = j.nth(k).map(rd);
            let rest: Vec<u64> = j.take(n + 2).map(rd).collect();
            (x, rest)
        });
        let exp_rest: Vec<u64> = if k < n { expect[k + 1..].to_vec() } else { Vec::new() };
        if g != Ok((expect.get(k).copied(), exp_rest)) {
            bad("nth", format!("k={} got {:x?}", k, g.map(|(x, rest)| (x, rest.len()))));
        }
        if catch(|| it.clone().skip(k).take(n + 2).map(rd).collect::<Vec<u64>>()) != Ok(expect.iter().copied().skip(k).collect()) {
            bad("skip", format!("k={}", k));
        }
        if k >= 1 && catch(|| it.clone().step_by(k).take(n + 2).map(rd).collect::<Vec<u64>>()) != Ok(expect.iter().copied().step_by(k).collect()) {
            bad("step_by", format!("k={}", k));
        }
    }
}

fn anchor_name(last: u64, size: u64, physical: bool) -> &'static str {
    if physical {
        if last == (1u64 << 52) - size {
            "end=last-phys-frame"
        } else {
            "end=ordinary"
        }
    } else if last == (GAP_LO_END + 1) - size {
        "end=last-page-of-lower-half"
    } else if last == 0u64.wrapping_sub(size) {
        "end=last-page-of-upper-half"
    } else {
        "end=ordinary"
    }
}

/// kind: "PageRange", "PageRangeInclusive", "PhysFrameRange", "PhysFrameRangeInclusive"
/// start/end are start addresses of the bounds as given to the range constructor.
pub fn range_case<S: PageSize>(r: &mut Rep, kind: &str, start: u64, end: u64) {
    let size = S::SIZE;
    let inclusive = kind.ends_with("Inclusive");
    let physical = kind.starts_with("Phys");
    // expected items
    let n: u64 = if inclusive {
        if start <= end { (end - start) / size + 1 } else { 0 }
    } else if start < end {
        (end - start) / size
    } else {
        0
    };
    let cap = n as usize + 3;
    let last = if inclusive { end } else { end.wrapping_sub(size) };
    let case = format!("range {} {} {:#x} {:#x}", kind, S::DEBUG_STR, start, end);
    let sigbase = format!("C07|{}<{}>", kind, S::DEBUG_STR);
    let anchor = if n > 0 { anchor_name(last, size, physical) } else { "empty" };
    let expect: Vec<u64> = (0..n).map(|i| start + i * size).collect();
    let (items, panicked, len, sz, empty): (Vec<u64>, Option<usize>, Result<u64, ()>, Result<u64, ()>, Result<bool, ()>) =
        match kind {
            "PageRange" => {
                let rg = Page::<S>::range(
                    Page::from_start_address(va(start)).unwrap(),
                    Page::from_start_address(va(end)).unwrap(),
                );
                let (i, p) = drain(rg.map(|p| p.start_address().as_u64()), cap);
                if n <= 80 && p.is_none() && i == expect {
                    adapters(r, &sigbase, &case, anchor, rg, |p| p.start_address().as_u64(), &expect);
                    partial(r, &sigbase, &case, anchor, rg, |p| p.start_address().as_u64(), |g| (g.len(), g.size(), g.is_empty()), &expect, size);
                }
                (i, p, catch(|| rg.len()), catch(|| rg.size()), catch(|| rg.is_empty()))
            }
            "PageRangeInclusive" => {
                let rg = Page::<S>::range_inclusive(
                    Page::from_start_address(va(start)).unwrap(),
                    Page::from_start_address(va(end)).unwrap(),
                );
                let (i, p) = drain(rg.map(|p| p.start_address().as_u64()), cap);
                if n <= 80 && p.is_none() && i == expect {
                    adapters(r, &sigbase, &case, anchor, rg, |p| p.start_address().as_u64(), &expect);
                    partial(r, &sigbase, &case, anchor, rg, |p| p.start_address().as_u64(), |g| (g.len(), g.size(), g.is_empty()), &expect, size);
                }
                (i, p, catch(|| rg.len()), catch(|| rg.size()), catch(|| rg.is_empty()))
            }
            "PhysFrameRange" => {
                let rg = PhysFrame::<S>::range(
                    PhysFrame::from_start_address(pa(start)).unwrap(),
                    PhysFrame::from_start_address(pa(end)).unwrap(),
                );
                let (i, p) = drain(rg.map(|p| p.start_address().as_u64()), cap);
                if n <= 80 && p.is_none() && i == expect {
                    adapters(r, &sigbase, &case, anchor, rg, |p| p.start_address().as_u64(), &expect);
                    partial(r, &sigbase, &case, anchor, rg, |p| p.start_address().as_u64(), |g| (g.len(), g.size(), g.is_empty()), &expect, size);
                }
                (i, p, catch(|| rg.len()), catch(|| rg.size()), catch(|| rg.is_empty()))
            }
            "PhysFrameRangeInclusive" => {
                let rg = PhysFrame::<S>::range_inclusive(
                    PhysFrame::from_start_address(pa(start)).unwrap(),
                    PhysFrame::from_start_address(pa(end)).unwrap(),
                );
                let (i, p) = drain(rg.map(|p| p.start_address().as_u64()), cap);
                if n <= 80 && p.is_none() && i == expect {
                    adapters(r, &sigbase, &case, anchor, rg, |p| p.start_address().as_u64(), &expect);
                    partial(r, &sigbase, &case, anchor, rg, |p| p.start_address().as_u64(), |g| (g.len(), g.size(), g.is_empty()), &expect, size);
                }
                (i, p, catch(|| rg.len()), catch(|| rg.size()), catch(|| rg.is_empty()))
            }
            _ => unreachable!(),
        };
    r.ev(n > 0);
    if let Some(at) = panicked {
        let when = if at as u64 == n { "after-last-item" } else if at as u64 + 1 == n { "yielding-last-item" } else { "mid-range" };
        r.viol(
            &format!("{}|next-panics|{}|{}", sigbase, when, if n > 0 { anchor_name(last, size, physical) } else { "empty" }),
            &case,
            &format!("next() panicked after {} of {} items", at, n),
        );
        return;
    }
    if items != expect {
        r.viol(
            &format!("{}|wrong-items", sigbase),
            &case,
            &format!("yielded {} items (first {:x?}), expected {} (first {:x?})", items.len(), items.first(), n, expect.first()),
        );
    }
    match len {
        Ok(l) if l == n => {}
        other => r.viol(&format!("{}|len-mismatch", sigbase), &case, &format!("len() = {:?}, items = {}", other, n)),
    }
    match sz {
        Ok(s) if s as u128 == n as u128 * size as u128 => {}
        other => r.viol(&format!("{}|size-mismatch", sigbase), &case, &format!("size() = {:?}, items = {}", other, n)),
    }
    match empty {
        Ok(e) if e == (n == 0) => {}
        other => r.viol(&format!("{}|is_empty-mismatch", sigbase), &case, &format!("is_empty() = {:?}, items = {}", other, n)),
    }
    r.bucket(if n == 0 { "range-empty" } else { anchor_name(last, size, physical) });
}

/// long ranges: len/size/is_empty against the exact count, without iterating
pub fn range_meta<S: PageSize>(r: &mut Rep, kind: &str, start: u64, end: u64, n: u64) {
    r.ev(true);
    let case = format!("rangemeta {} {} {:#x} {:#x}", kind, S::DEBUG_STR, start, end);
    let (len, sz, empty) = match kind {
        "PageRange" => { let g = Page::<S>::range(Page::containing_address(va(start)), Page::containing_address(va(end))); (catch(|| g.len()), catch(|| g.size()), catch(|| g.is_empty())) }
        "PageRangeInclusive" => { let g = Page::<S>::range_inclusive(Page::containing_address(va(start)), Page::containing_address(va(end))); (catch(|| g.len()), catch(|| g.size()), catch(|| g.is_empty())) }
        "PhysFrameRange" => { let g = PhysFrame::<S>::range(PhysFrame::containing_address(pa(start)), PhysFrame::containing_address(pa(end))); (catch(|| g.len()), catch(|| g.size()), catch(|| g.is_empty())) }
        _ => { let g = PhysFrame::<S>::range_inclusive(PhysFrame::containing_address(pa(start)), PhysFrame::containing_address(pa(end))); (catch(|| g.len()), catch(|| g.size()), catch(|| g.is_empty())) }
    };
    if len != Ok(n) || sz != Ok(n * S::SIZE) || empty != Ok(n == 0) {
        r.viol(&format!("C07|{}<{}>|len/size/is_empty-of-a-long-range-wrong", kind, S::DEBUG_STR), &case, &format!("{:?} {:?} {:?} expected {} items", len, sz, empty, n));
    }
}

pub fn range_2m_conv(r: &mut Rep, start: u64, end: u64) {
    let rg = Page::<Size2MiB>::range(
        Page::from_start_address(va(start)).unwrap(),
        Page::from_start_address(va(end)).unwrap(),
    );
    let c = catch(|| rg.as_4kib_page_range());
    r.ev(start < end);
    let case = format!("conv2m {:#x} {:#x}", start, end);
    match c {
        Err(()) => r.viol("C07|as_4kib_page_range|panic", &case, "panicked"),
        Ok(c) => {
            let ok = c.start.start_address().as_u64() == start
                && c.end.start_address().as_u64() == end
                && catch(|| c.size()).ok() == catch(|| rg.size()).ok()
                && c.is_empty() == rg.is_empty();
            if !ok {
                r.viol("C07|as_4kib_page_range|different-bytes", &case, &format!("{:?} vs {:?}", c, rg));
            }
        }
    }
}

fn sweep_ranges<S: PageSize>(r: &mut Rep, a: &Args) {
    let size = S::SIZE;
    let maxlen: u64 = if a.thorough() { 70 } else { 24 };
    // virtual anchors: (lowest allowed start, last page) for each half
    let halves: [(u64, u64); 2] = [(0, (GAP_LO_END + 1) - size), (GAP_HI_START, 0u64.wrapping_sub(size))];
    let mut case_no = 0usize;
    for (lo, last) in halves {
        // ranges ending at / near the last page of the half, and starting at / near its first page
        for back in [0u64, 1, 2] {
            let end_incl = last - back * size;
            for len in 0..=maxlen {
                case_no += 1;
                if case_no % a.nshards != a.shard {
                    continue;
                }
                let start = end_incl.wrapping_sub(len.wrapping_sub(1).wrapping_mul(size));
                if len >= 1 && start >= lo && start <= end_incl {
                    range_case::<S>(r, "PageRangeInclusive", start, end_incl);
                    // exclusive range with the same items exists iff end_incl+size is a page of the same half
                    if back >= 1 {
                        range_case::<S>(r, "PageRange", start, end_incl + size);
                    }
                }
                if len == 0 {
                    // empty ranges: start > end (inclusive), start >= end (exclusive)
                    if end_incl >= lo + size {
                        range_case::<S>(r, "PageRangeInclusive", end_incl, end_incl - size);
                        range_case::<S>(r, "PageRange", end_incl, end_incl - size);
                    }
                    range_case::<S>(r, "PageRange", end_incl, end_incl);
                }
                // ranges starting at the first page of the half
                let s0 = lo + back * size;
                if len >= 1 {
                    range_case::<S>(r, "PageRangeInclusive", s0, s0 + (len - 1) * size);
                }
                range_case::<S>(r, "PageRange", s0, s0 + len * size);
                if size == Size2MiB::SIZE {
                    range_2m_conv(r, s0, s0 + len * size);
                    if back >= 1 && len >= 1 && start >= lo {
                        range_2m_conv(r, start, end_incl + size);
                    }
                }
            }
        }
    }
    // all ordered pairs over a small page set per half (first/last three pages, three irregular middle pages):
    // reversed (empty) ranges of any distance, and long ranges whose metadata (len/size/is_empty, 2 MiB conversion) is
    // checked without iterating
    for (lo, last) in halves {
        let mid = (lo + (0x0000_2345_6789_a000u64 & 0x7fff_ffff_ffff)) & !(size - 1);
        let pts = [lo, lo + size, lo + 2 * size, mid - size, mid, mid + 7 * size, last - 2 * size, last - size, last];
        for &s0 in &pts {
            for &e0 in &pts {
                case_no += 1;
                if case_no % a.nshards != a.shard {
                    continue;
                }
                for kind in ["PageRange", "PageRangeInclusive"] {
                    let n = if kind == "PageRange" { if s0 < e0 { (e0 - s0) / size } else { 0 } } else if s0 <= e0 { (e0 - s0) / size + 1 } else { 0 };
                    if n <= maxlen {
                        range_case::<S>(r, kind, s0, e0);
                    } else {
                        range_meta::<S>(r, kind, s0, e0, n);
                    }
                }
                if size == Size2MiB::SIZE {
                    range_2m_conv(r, s0, e0);
                }
            }
        }
    }
    {
        let plast = (1u64 << 52) - size;
        let mid = 0x0003_4567_89ab_c000u64 & !(size - 1);
        let pts = [0, size, 2 * size, mid - size, mid, mid + 7 * size, plast - 2 * size, plast - size, plast];
        for &s0 in &pts {
            for &e0 in &pts {
                case_no += 1;
                if case_no % a.nshards != a.shard {
                    continue;
                }
                for kind in ["PhysFrameRange", "PhysFrameRangeInclusive"] {
                    let n = if kind == "PhysFrameRange" { if s0 < e0 { (e0 - s0) / size } else { 0 } } else if s0 <= e0 { (e0 - s0) / size + 1 } else { 0 };
                    if n <= maxlen {
                        range_case::<S>(r, kind, s0, e0);
                    } else {
                        range_meta::<S>(r, kind, s0, e0, n);
                    }
                }
            }
        }
    }
    // physical
    let plast = (1u64 << 52) - size;
    for back in [0u64, 1, 2] {
        let end_incl = plast - back * size;
        for len in 0..=maxlen {
            case_no += 1;
            if case_no % a.nshards != a.shard {
                continue;
            }
            if len >= 1 {
                let start = end_incl - (len - 1) * size;
                range_case::<S>(r, "PhysFrameRangeInclusive", start, end_incl);
                if back >= 1 {
                    range_case::<S>(r, "PhysFrameRange", start, end_incl + size);
                }
            } else {
                range_case::<S>(r, "PhysFrameRangeInclusive", end_incl, end_incl - size);
                range_case::<S>(r, "PhysFrameRange", end_incl, end_incl - size);
                range_case::<S>(r, "PhysFrameRange", end_incl, end_incl);
            }
            let s0 = back * size;
            if len >= 1 {
                range_case::<S>(r, "PhysFrameRangeInclusive", s0, s0 + (len - 1) * size);
            }
            range_case::<S>(r, "PhysFrameRange", s0, s0 + len * size);
        }
    }
    if a.thorough() && a.shard == 0 {
        // long ranges (iteration time bound only)
        let n = 200_000u64.min((1u64 << 46) / size);
        range_case::<S>(r, "PageRange", GAP_HI_START, GAP_HI_START + n * size);
        range_case::<S>(r, "PageRangeInclusive", (0u64.wrapping_sub(size)).wrapping_sub((n - 1) * size), 0u64.wrapping_sub(size));
        range_case::<S>(r, "PhysFrameRange", 0, n * size);
    }
}

fn by_size(sz: &str, f4: impl FnOnce(), f2: impl FnOnce(), f1: impl FnOnce()) {
    match sz {
        "4KiB" => f4(),
        "2MiB" => f2(),
        "1GiB" => f1(),
        _ => panic!("bad size"),
    }
}

pub fn replay(case: &str) -> Rep {
    let mut r = Rep::new("C07", "replay");
    let t: Vec<&str> = case.split_whitespace().collect();
    let h = |s: &str| u64::from_str_radix(s.trim_start_matches("0x"), 16).unwrap();
    match t[0] {
        "arith" => {
            let (ty, op, a, b) = (t[1], t[2], h(t[3]), h(t[4]));
            let rr = &mut r;
            if ty == "VirtAddr" {
                if op == "diff" { arith_virt_diff(rr, a, b) } else { arith_virt(rr, op, a, b) }
            } else if ty == "PhysAddr" {
                if op == "diff" { arith_phys_diff(rr, a, b) } else { arith_phys(rr, op, a, b) }
            } else if let Some(sz) = ty.strip_prefix("Page<") {
                let sz = sz.trim_end_matches('>');
                if op == "diff" {
                    match sz { "4KiB" => arith_page_diff::<Size4KiB>(rr, a, b), "2MiB" => arith_page_diff::<Size2MiB>(rr, a, b), _ => arith_page_diff::<Size1GiB>(rr, a, b) }
                } else {
                    match sz { "4KiB" => arith_page::<Size4KiB>(rr, op, a, b), "2MiB" => arith_page::<Size2MiB>(rr, op, a, b), _ => arith_page::<Size1GiB>(rr, op, a, b) }
                }
            } else if let Some(sz) = ty.strip_prefix("PhysFrame<") {
                let sz = sz.trim_end_matches('>');
                if op == "diff" {
                    match sz { "4KiB" => arith_frame_diff::<Size4KiB>(rr, a, b), "2MiB" => arith_frame_diff::<Size2MiB>(rr, a, b), _ => arith_frame_diff::<Size1GiB>(rr, a, b) }
                } else {
                    match sz { "4KiB" => arith_frame::<Size4KiB>(rr, op, a, b), "2MiB" => arith_frame::<Size2MiB>(rr, op, a, b), _ => arith_frame::<Size1GiB>(rr, op, a, b) }
                }
            }
        }
        "range" => {
            let (kind, sz, s, e) = (t[1], t[2], h(t[3]), h(t[4]));
            match sz { "4KiB" => range_case::<Size4KiB>(&mut r, kind, s, e), "2MiB" => range_case::<Size2MiB>(&mut r, kind, s, e), _ => range_case::<Size1GiB>(&mut r, kind, s, e) }
        }
        "conv2m" => range_2m_conv(&mut r, h(t[1]), h(t[2])),
        "rangemeta" => {
            let (kind, sz, s, e) = (t[1], t[2], h(t[3]), h(t[4]));
            let size: u64 = match sz { "4KiB" => 0x1000, "2MiB" => 0x20_0000, _ => 0x4000_0000 };
            let n = if kind.ends_with("Inclusive") { if s <= e { (e - s) / size + 1 } else { 0 } } else if s < e { (e - s) / size } else { 0 };
            match sz { "4KiB" => range_meta::<Size4KiB>(&mut r, kind, s, e, n), "2MiB" => range_meta::<Size2MiB>(&mut r, kind, s, e, n), _ => range_meta::<Size1GiB>(&mut r, kind, s, e, n) }
        }
        _ => panic!("bad case"),
    }
    r
}

pub fn run(a: &Args) {
    if let Some(c) = &a.replay {
        replay(c).emit();
        return;
    }
    let mut r = Rep::new("C07", &format!("arith-{}", profile()));
    r.note(&format!("profile {} (overflow checks {})", profile(), overflow_checks_on()));
    let cv = canon();
    let pv = phys();
    let offs = b64();
    for (i, &x) in cv.iter().enumerate() {
        if i % a.nshards != a.shard {
            continue;
        }
        for &o in &offs {
            for op in OPS {
                arith_virt(&mut r, op, x, o);
            }
        }
        for &y in &cv {
            arith_virt_diff(&mut r, x, y);
        }
    }
    for (i, &x) in pv.iter().enumerate() {
        if i % a.nshards != a.shard {
            continue;
        }
        for &o in &offs {
            for op in OPS {
                arith_phys(&mut r, op, x, o);
            }
        }
        for &y in &pv {
            arith_phys_diff(&mut r, x, y);
        }
    }
    if a.thorough() {
        // wide x small and small x wide: every value with <=3 set / <=3 clear bits / run of ones on one side
        let wide = b64_wide();
        let mut wc: Vec<u64> = wide.iter().map(|&x| sext48(x)).collect();
        wc.sort_unstable();
        wc.dedup();
        let mut wp: Vec<u64> = wide.iter().map(|&x| x & ((1u64 << 52) - 1)).collect();
        wp.sort_unstable();
        wp.dedup();
        let so = b64_small();
        for (i, &x) in wc.iter().enumerate() {
            if i % a.nshards == a.shard {
                for &o in &so {
                    for op in OPS {
                        arith_virt(&mut r, op, x, o);
                    }
                }
            }
        }
        for (i, &x) in wp.iter().enumerate() {
            if i % a.nshards == a.shard {
                for &o in &so {
                    for op in OPS {
                        arith_phys(&mut r, op, x, o);
                    }
                }
            }
        }
        for (i, &o) in wide.iter().enumerate() {
            if i % a.nshards == a.shard {
                for &x in &canon_small() {
                    for op in OPS {
                        arith_virt(&mut r, op, x, o);
                    }
                }
                for &x in &phys_small() {
                    for op in OPS {
                        arith_phys(&mut r, op, x, o);
                    }
                }
            }
        }
        r.note("thorough: additionally (every address with <=3 set bits / <=3 clear bits / one run of ones) x small boundary offsets, and small boundary addresses x every such offset");
    }
    sweep_pages::<Size4KiB>(&mut r, a);
    sweep_pages::<Size2MiB>(&mut r, a);
    sweep_pages::<Size1GiB>(&mut r, a);
    r.sample("arith VirtAddr add 0xffffffffffffffff 0x2".into());
    r.sample("arith Page<4KiB> sub 0x1000 0x10000000000000".into());
    r.emit();

    let mut r = Rep::new("C07", &format!("ranges-{}", profile()));
    sweep_ranges::<Size4KiB>(&mut r, a);
    sweep_ranges::<Size2MiB>(&mut r, a);
    sweep_ranges::<Size1GiB>(&mut r, a);
    r.sample("range PageRangeInclusive 4KiB 0x7fffffffe000 0x7ffffffff000".into());
    r.sample("range PhysFrameRangeInclusive 2MiB 0xfffffffc00000 0xfffffffe00000".into());
    r.emit();
}
