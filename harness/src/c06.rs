//! C06 — alignment and containment are exact.
use crate::b64::*;
use crate::out::*;
use crate::Args;
use x86_64::structures::paging::{Page, PageSize, PhysFrame, Size1GiB, Size2MiB, Size4KiB};
use x86_64::{align_down, align_up, PhysAddr, VirtAddr};

pub fn raw_case(r: &mut Rep, x: u64, k: u32) {
    let al = 1u64 << k;
    let dn = (x as u128 / al as u128) * al as u128;
    let up = ((x as u128 + al as u128 - 1) / al as u128) * al as u128;
    r.ev(up != x as u128);
    let case = format!("raw {:#x} {}", x, k);
    match catch(|| align_down(x, al)) {
        Ok(g) if g as u128 == dn => {}
        o => r.viol("C06|align_down|wrong", &case, &format!("{:x?} expected {:#x}", o, dn)),
    }
    match catch(|| align_up(x, al)) {
        Ok(g) => {
            if up >= 1u128 << 64 || g as u128 != up {
                r.viol("C06|align_up|wrong-or-missing-overflow-panic", &case, &format!("{:#x} expected {:#x}", g, up));
            }
        }
        Err(()) => {
            if up < 1u128 << 64 {
                r.viol("C06|align_up|panics-without-overflow", &case, "");
            }
        }
    }
    // physical
    if is_phys(x) {
        let p = PhysAddr::new(x);
        match catch(|| p.align_down(al).as_u64()) {
            Ok(g) if g as u128 == dn => {}
            o => r.viol("C06|PhysAddr::align_down|wrong", &case, &format!("{:x?}", o)),
        }
        match catch(|| p.align_up(al).as_u64()) {
            Ok(g) => {
                if up >= 1u128 << 52 || g as u128 != up {
                    r.viol("C06|PhysAddr::align_up|wrong-or-missing-overflow-panic", &case, &format!("{:#x} expected {:#x}", g, up));
                }
            }
            Err(()) => {
                if up < 1u128 << 52 {
                    r.viol("C06|PhysAddr::align_up|panics-without-overflow", &case, "");
                }
            }
        }
        if catch(|| p.is_aligned(al)) != Ok(x % al == 0) {
            r.viol("C06|PhysAddr::is_aligned|wrong-or-panics", &case, "");
        }
    }
    // virtual, alignments up to 2^47
    if is_canon(x) && k <= 47 {
        let v = VirtAddr::new(x);
        match catch(|| v.align_down(al).as_u64()) {
            Ok(g) if g as u128 == dn && is_canon(g) => {}
            o => r.viol("C06|VirtAddr::align_down|wrong", &case, &format!("{:x?} expected {:#x}", o, dn)),
        }
        // least canonical multiple >= x
        let exp: Option<u64> = if up >= 1u128 << 64 {
            None
        } else if is_canon(up as u64) {
            Some(up as u64)
        } else {
            Some(GAP_HI_START)
        };
        match (catch(|| v.align_up(al).as_u64()), exp) {
            (Ok(g), Some(e)) if g == e => {}
            (Err(()), None) => {}
            (o, e) => r.viol("C06|VirtAddr::align_up|wrong", &case, &format!("{:x?} expected {:x?}", o, e)),
        }
        if catch(|| v.is_aligned(al)) != Ok(x % al == 0) {
            r.viol("C06|VirtAddr::is_aligned|wrong-or-panics", &case, "");
        }
    }
}

/// the alignment parameter is `impl Into<u64>`: every integer type that can hold the alignment gives the same result
/// (value or panic) as u64
pub fn narrow_case(r: &mut Rep, x: u64, k: u32) {
    let case = format!("narrow {:#x} {}", x, k);
    macro_rules! same {
        ($ty:ty) => {{
            let al = 1u64 << k;
            if is_phys(x) {
                let p = PhysAddr::new(x);
                let a = (catch(|| p.align_up(al).as_u64()), catch(|| p.align_down(al).as_u64()), catch(|| p.is_aligned(al)));
                let b = (catch(|| p.align_up(al as $ty).as_u64()), catch(|| p.align_down(al as $ty).as_u64()), catch(|| p.is_aligned(al as $ty)));
                if a != b {
                    r.viol(&format!("C06|PhysAddr::align/is_aligned<{}>|differs-from-the-u64-instantiation", stringify!($ty)), &case, &format!("{:x?} vs {:x?}", b, a));
                }
                if let Ok(v) = b.0 {
                    if !is_phys(v) {
                        r.viol(&format!("C06|PhysAddr::align_up<{}>|returns-an-invalid-address", stringify!($ty)), &case, &format!("{:#x}", v));
                    }
                }
            }
            if is_canon(x) {
                let p = VirtAddr::new(x);
                let a = (catch(|| p.align_up(al).as_u64()), catch(|| p.align_down(al).as_u64()), catch(|| p.is_aligned(al)));
                let b = (catch(|| p.align_up(al as $ty).as_u64()), catch(|| p.align_down(al as $ty).as_u64()), catch(|| p.is_aligned(al as $ty)));
                if a != b {
                    r.viol(&format!("C06|VirtAddr::align/is_aligned<{}>|differs-from-the-u64-instantiation", stringify!($ty)), &case, &format!("{:x?} vs {:x?}", b, a));
                }
            }
        }};
    }
    r.ev(true);
    if k < 8 {
        same!(u8);
    }
    if k < 16 {
        same!(u16);
    }
    if k < 32 {
        same!(u32);
    }
}

pub fn nonpow_case(r: &mut Rep, al: u64) {
    r.ev(true);
    let case = format!("nonpow {:#x}", al);
    for x in [0u64, 1, 0x1000, 0x7fff_ffff_ffff, 0xf_ffff_ffff_ffff] {
        if catch(|| align_down(x, al)).is_ok() || catch(|| align_up(x, al)).is_ok() {
            r.viol("C06|align|accepts-non-power-of-two", &case, "");
        }
        if catch(|| VirtAddr::new(x).align_up(al)).is_ok() || catch(|| VirtAddr::new(x).align_down(al)).is_ok() {
            r.viol("C06|VirtAddr::align|accepts-non-power-of-two", &case, "");
        }
        if catch(|| PhysAddr::new(x).align_up(al)).is_ok() || catch(|| PhysAddr::new(x).align_down(al)).is_ok() {
            r.viol("C06|PhysAddr::align|accepts-non-power-of-two", &case, "");
        }
    }
}

pub fn contain_case<S: PageSize>(r: &mut Rep, x: u64) {
    let sz = S::SIZE;
    r.ev(x % sz != 0);
    let case = format!("contain {} {:#x}", S::DEBUG_STR, x);
    if is_canon(x) {
        let v = VirtAddr::new(x);
        let p = Page::<S>::containing_address(v);
        let s = p.start_address().as_u64();
        if s % sz != 0 || s > x || x - s >= sz || p.size() != sz {
            r.viol(&format!("C06|Page<{}>::containing_address|wrong", S::DEBUG_STR), &case, &format!("{:#x}", s));
        }
        if x % sz == 0 && (unsafe { Page::<S>::from_start_address_unchecked(v) }.start_address().as_u64() != x || Page::<S>::from_start_address(v).ok() != Some(unsafe { Page::<S>::from_start_address_unchecked(v) })) {
            r.viol(&format!("C06|Page<{}>::from_start_address_unchecked|changes-an-aligned-address", S::DEBUG_STR), &case, "");
        }
        match Page::<S>::from_start_address(v) {
            Ok(q) => {
                if x % sz != 0 || q.start_address().as_u64() != x {
                    r.viol(&format!("C06|Page<{}>::from_start_address|accepts-unaligned-or-changes", S::DEBUG_STR), &case, "");
                }
            }
            Err(_) => {
                if x % sz == 0 {
                    r.viol(&format!("C06|Page<{}>::from_start_address|rejects-aligned", S::DEBUG_STR), &case, "");
                }
            }
        }
    }
    if is_phys(x) {
        let v = PhysAddr::new(x);
        let p = PhysFrame::<S>::containing_address(v);
        let s = p.start_address().as_u64();
        if s % sz != 0 || s > x || x - s >= sz || p.size() != sz {
            r.viol(&format!("C06|PhysFrame<{}>::containing_address|wrong", S::DEBUG_STR), &case, &format!("{:#x}", s));
        }
        if x % sz == 0 && (unsafe { PhysFrame::<S>::from_start_address_unchecked(v) }.start_address().as_u64() != x || PhysFrame::<S>::from_start_address(v).ok() != Some(unsafe { PhysFrame::<S>::from_start_address_unchecked(v) })) {
            r.viol(&format!("C06|PhysFrame<{}>::from_start_address_unchecked|changes-an-aligned-address", S::DEBUG_STR), &case, "");
        }
        match PhysFrame::<S>::from_start_address(v) {
            Ok(q) => {
                if x % sz != 0 || q.start_address().as_u64() != x {
                    r.viol(&format!("C06|PhysFrame<{}>::from_start_address|accepts-unaligned-or-changes", S::DEBUG_STR), &case, "");
                }
            }
            Err(_) => {
                if x % sz == 0 {
                    r.viol(&format!("C06|PhysFrame<{}>::from_start_address|rejects-aligned", S::DEBUG_STR), &case, "");
                }
            }
        }
    }
}

fn addr_set(k: u32, wide: &Option<Vec<u64>>) -> Vec<u64> {
    let al = 1u128 << k;
    let mut v = match wide {
        Some(w) => w.clone(),
        None => b64(),
    };
    // multiples of the alignment near 0, the gap, 2^52 and 2^64, +-1
    for anchor in [0u128, 1u128 << 47, (1u128 << 64) - (1u128 << 47), 1u128 << 52, 1u128 << 64] {
        let m = anchor / al;
        for dm in [-1i128, 0, 1] {
            let mm = m as i128 + dm;
            if mm < 0 {
                continue;
            }
            for d in [-1i128, 0, 1] {
                let x = mm * al as i128 + d;
                if x >= 0 && x < (1i128 << 64) {
                    v.push(x as u64);
                }
            }
        }
    }
    v.sort_unstable();
    v.dedup();
    v
}

pub fn run(a: &Args) {
    let h = |s: &str| u64::from_str_radix(s.trim_start_matches("0x"), 16).unwrap();
    if let Some(c) = &a.replay {
        let mut r = Rep::new("C06", "replay");
        let t: Vec<&str> = c.split_whitespace().collect();
        match t[0] {
            "raw" => raw_case(&mut r, h(t[1]), t[2].parse().unwrap()),
            "nonpow" => nonpow_case(&mut r, h(t[1])),
            "narrow" => narrow_case(&mut r, h(t[1]), t[2].parse().unwrap()),
            "contain" => match t[1] {
                "4KiB" => contain_case::<Size4KiB>(&mut r, h(t[2])),
                "2MiB" => contain_case::<Size2MiB>(&mut r, h(t[2])),
                _ => contain_case::<Size1GiB>(&mut r, h(t[2])),
            },
            _ => panic!(),
        }
        r.emit();
        return;
    }
    let mut r = Rep::new("C06", &format!("align-{}", profile()));
    let wide = Some(b64_wide());
    for k in 0..64u32 {
        if k as usize % a.nshards != a.shard {
            continue;
        }
        for x in addr_set(k, &wide) {
            guarded(&mut r, "C06|align/is_aligned|unexpected-panic", || format!("raw {:#x} {}", x, k), |r| raw_case(r, x, k));
        }
        if k < 32 {
            for x in addr_set(k, &None) {
                guarded(&mut r, "C06|align/is_aligned|unexpected-panic", || format!("narrow {:#x} {}", x, k), |r| narrow_case(r, x, k));
            }
        }
    }
    // non powers of two
    let mut np: Vec<u64> = vec![0, 3, 5, 6, 7, 9, 10, 12, 0xfff, 0x1001, 0x3000, u64::MAX, u64::MAX - 1];
    for k in 2..64 {
        np.push((1u64 << k) - 1);
        np.push((1u64 << k) + 1);
        for j in 0..k {
            np.push((1u64 << k) | (1u64 << j));
        }
    }
    np.sort_unstable();
    np.dedup();
    for (i, &al) in np.iter().enumerate() {
        if i % a.nshards == a.shard {
            nonpow_case(&mut r, al);
        }
    }
    {
        let mut all = b64();
        if let Some(w) = &wide {
            all = w.iter().copied().enumerate().filter(|(i, _)| i % a.nshards == a.shard).map(|(_, x)| x).collect();
            let m: Vec<u64> = all.iter().flat_map(|&x| [sext48(x), x & ((1u64 << 52) - 1)]).collect();
            all.extend(m);
        }
        all.extend(canon());
        all.extend(phys());
        all.sort_unstable();
        all.dedup();
        for x in all {
            guarded(&mut r, "C06|containing_address/from_start_address<4KiB>|unexpected-panic", || format!("contain 4KiB {:#x}", x), |r| contain_case::<Size4KiB>(r, x));
            guarded(&mut r, "C06|containing_address/from_start_address<2MiB>|unexpected-panic", || format!("contain 2MiB {:#x}", x), |r| contain_case::<Size2MiB>(r, x));
            guarded(&mut r, "C06|containing_address/from_start_address<1GiB>|unexpected-panic", || format!("contain 1GiB {:#x}", x), |r| contain_case::<Size1GiB>(r, x));
        }
    }
    r.sample("raw 0x7fffffffffff 21  (VirtAddr::align_up crosses the gap)".into());
    r.sample("nonpow 0x3000".into());
    r.sample("contain 1GiB 0xffff80003fffffff".into());
    {
        r.note("the address alphabet is every u64 with <=3 set bits, <=3 clear bits, every contiguous run of ones (~90k values), their sign-extended and 52-bit-truncated images");
    }
    if a.shard == 0 {
        guarded(&mut r, "C06|const-context|unexpected-panic", || "constctx".into(), |r| crate::constctx::addrs(r, "C06"));
    }
    r.note("all 64 power-of-two alignments x (B64 + multiples of the alignment around 0, the gap, 2^52, 2^64 +-1); ~2000 non-powers of two (2^k+-1, 2^k|2^j, small) must panic");
    r.emit();
}
