//! E4 SimCPU (placeholder until built).
pub fn panic_hook_notify() {}
