//! E4 SimCPU (placeholder until built).
use libc::{c_int, siginfo_t, ucontext_t};
pub fn panic_hook_notify() {}
pub unsafe fn on_signal(_sig: c_int, _info: *mut siginfo_t, _uc: &mut ucontext_t) -> bool {
    false
}
