//! E4 SimCPU — ring-0 instruction set by trap-and-emulate on the real machine code of the crate (DESIGN §3, Appendix B).
//! Fault mode: privileged instructions raise #GP/#UD -> SIGSEGV/SIGILL -> decoded and applied to the simulated register file.
//! Step mode: RFLAGS.TF single-stepping; before every instruction the SIGTRAP handler inspects it and emulates sensitive ones.
#![allow(static_mut_refs)]
use libc::{c_int, siginfo_t, ucontext_t};

#[derive(Clone, Copy, Debug, PartialEq, Eq)]
pub enum Ev {
    ReadCr(u8, u64),
    WriteCr(u8, u64),
    ReadDr(u8, u64),
    WriteDr(u8, u64),
    Rdmsr(u32, u64),
    /// msr, value (EDX:EAX), raw RAX, raw RDX
    Wrmsr(u32, u64, u64, u64),
    Xgetbv(u32, u64),
    Xsetbv(u32, u64),
    Cli,
    Sti,
    Hlt,
    Pushf(u64),
    Popf(u64),
    /// port (DX or imm8), width in bits, value
    In(u16, u8, u32),
    Out(u16, u8, u32),
    Invlpg(u64),
    Invpcid(u64, u64, u64),
    Invlpgb(u64, u32, u32),
    Tlbsync,
    /// limit, base, address of the memory operand
    Lgdt(u16, u64, u64),
    Lidt(u16, u64, u64),
    Sgdt(u64),
    Sidt(u64),
    Ltr(u16),
    Lldt(u16),
    /// segment register number (0 es,1 cs,2 ss,3 ds,4 fs,5 gs), value
    MovToSeg(u8, u16),
    MovFromSeg(u8, u16),
    /// 0 = fs, 1 = gs
    RdBase(u8, u64),
    WrBase(u8, u64),
    Swapgs,
    Ldmxcsr(u32),
    Stmxcsr(u32),
    Cpuid(u32, u32),
    /// rip, cs, rflags, rsp, ss as popped
    Iretq(u64, u64, u64, u64, u64),
    /// rip, cs
    Retfq(u64, u64),
    Int3,
    Int(u8),
}

#[derive(Clone, Copy, Debug)]
pub struct Event {
    pub ev: Ev,
    pub rip: u64,
    pub len: u8,
}

#[derive(Clone, Copy, PartialEq, Eq, Debug)]
pub enum Mode {
    Off,
    Fault,
    Step,
}

pub const MAX_EV: usize = 512;
pub const MSR_FS_BASE: u32 = 0xC000_0100;
pub const MSR_GS_BASE: u32 = 0xC000_0101;
pub const MSR_KGS_BASE: u32 = 0xC000_0102;

pub struct Cpu {
    pub mode: Mode,
    pub cr: [u64; 16],
    pub dr: [u64; 16],
    pub xcr0: u64,
    pub msrs: [(u32, u64); 32],
    pub nmsr: usize,
    pub sel: [u16; 6],
    pub rflags_sys: u64, // simulated non-arithmetic RFLAGS bits (IF, IOPL, ...)
    pub mxcsr: u32,
    pub gdtr: (u16, u64),
    pub idtr: (u16, u64),
    pub tr: u16,
    pub ldtr: u16,
    pub port_in: u32, // value the device supplies on the next IN (truncated to the access width)
    pub port_in_step: u32, // added to port_in after every IN (a device whose register changes between reads)
    pub cpuid: [(u32, [u32; 4]); 4],
    pub ncpuid: usize,
    pub events: [Event; MAX_EV],
    pub nev: usize,
    pub overflow: bool,
    pub dropped: u64,
    pub step_end: u64,
    pub stop_requested: bool,
    pub steps: u64,
    pub iret_cont: u64, // continuation RIP after an emulated iretq (0 = execute iretq natively)
    pub iret_rsp: u64,
    pub unknown_fault: u64,
    /// set once by init(): from then on every privileged instruction that faults is emulated and logged, whatever the mode
    pub armed: bool,
    /// when on, INVLPGB requests are checked as they are executed instead of being stored (ranges that need > MAX_EV requests)
    pub inv_stream: InvStream,
    /// step mode: every instruction whose address lies in [trace_lo, trace_hi) is recorded (address, first 4 bytes)
    pub trace_lo: u64,
    pub trace_hi: u64,
    pub itrace: [(u64, [u8; 4]); 64],
    pub nitrace: usize,
    /// when non-zero: an emulated write to CR3 also stores (new root frame | 3) at this address — the memory seen through
    /// a recursive address changes with the root
    pub cr3_write_store: u64,
}

/// streaming oracle for broadcast range flushes (same rules as c11::invlpgb_case, applied request by request)
#[derive(Clone, Copy)]
pub struct InvStream {
    pub on: bool,
    pub size: u64,
    pub count_max: u32,
    pub exp_low: u64,
    pub exp_edx: u32,
    pub cur: u128,  // position (in the contiguous 2^48 space) up to which the range is covered
    pub n: u64,     // requests seen
    pub bad_bits: u64,
    pub bad_count: u64,
    pub bad_addr: u64,
    pub bad_gap: u64,
    pub first_bad: (u64, u32, u32),
}
impl InvStream {
    pub const OFF: InvStream = InvStream { on: false, size: 0x1000, count_max: 0, exp_low: 1, exp_edx: 0, cur: 0, n: 0, bad_bits: 0, bad_count: 0, bad_addr: 0, bad_gap: 0, first_bad: (0, 0, 0) };
    fn feed(&mut self, rax: u64, ecx: u32, edx: u32) {
        self.n += 1;
        let mut bad = false;
        if rax & 0xfff != self.exp_low || edx != self.exp_edx || (ecx >> 31 == 1) != (self.size == 0x20_0000) || ecx & 0x7fff_0000 != 0 {
            self.bad_bits += 1;
            bad = true;
        }
        let count = ecx & 0xffff;
        if count > self.count_max {
            self.bad_count += 1;
            bad = true;
        }
        let va = rax & !0xfff;
        let canon = (((va << 16) as i64) >> 16) as u64 == va;
        if !canon || va % self.size != 0 {
            self.bad_addr += 1;
            bad = true;
        } else {
            let n = count.max(1) as u128;
            if va < (1 << 47) && va as u128 + n * self.size as u128 > (1u128 << 47) {
                self.bad_gap += 1;
                bad = true;
            }
            let p = (va & 0xffff_ffff_ffff) as u128;
            if p <= self.cur && p + n * self.size as u128 > self.cur {
                self.cur = p + n * self.size as u128;
            }
        }
        if bad && self.first_bad == (0, 0, 0) {
            self.first_bad = (rax, ecx, edx);
        }
        if self.n > 20_000_000 {
            unsafe { runaway() };
        }
    }
}

const ARITH: u64 = 0x8d5 | 0x400; // CF PF AF ZF SF OF + DF live in the real RFLAGS

pub static mut CPU: Cpu = Cpu {
    mode: Mode::Off,
    cr: [0; 16],
    dr: [0; 16],
    xcr0: 1,
    msrs: [(0, 0); 32],
    nmsr: 0,
    sel: [0; 6],
    rflags_sys: 0x202,
    mxcsr: 0x1f80,
    gdtr: (0, 0),
    idtr: (0, 0),
    tr: 0,
    ldtr: 0,
    port_in: 0,
    port_in_step: 0,
    cpuid: [(0, [0; 4]); 4],
    ncpuid: 0,
    events: [Event { ev: Ev::Cli, rip: 0, len: 0 }; MAX_EV],
    nev: 0,
    overflow: false,
    dropped: 0,
    step_end: 0,
    stop_requested: false,
    steps: 0,
    iret_cont: 0,
    iret_rsp: 0,
    unknown_fault: 0,
    inv_stream: InvStream::OFF,
    trace_lo: 0,
    trace_hi: 0,
    itrace: [(0, [0; 4]); 64],
    nitrace: 0,
    cr3_write_store: 0,
    armed: false,
};

pub fn cpu() -> &'static mut Cpu {
    unsafe { &mut CPU }
}

impl Cpu {
    pub fn reset(&mut self) {
        self.cr = [0; 16];
        self.dr = [0; 16];
        self.xcr0 = 1;
        self.nmsr = 0;
        self.sel = [0x10, 0x08, 0x10, 0x10, 0, 0];
        self.rflags_sys = 0x202;
        self.mxcsr = 0x1f80;
        self.gdtr = (0, 0);
        self.idtr = (0, 0);
        self.tr = 0;
        self.ldtr = 0;
        self.port_in = 0;
        self.port_in_step = 0;
        self.ncpuid = 0;
        self.nev = 0;
        self.overflow = false;
        self.iret_cont = 0;
        self.steps = 0;
    }
    pub fn clear_events(&mut self) {
        self.nev = 0;
        self.overflow = false;
        self.dropped = 0;
    }
    pub fn evs(&self) -> Vec<Ev> {
        self.events[..self.nev].iter().map(|e| e.ev).collect()
    }
    pub fn msr_get(&self, n: u32) -> u64 {
        for i in 0..self.nmsr {
            if self.msrs[i].0 == n {
                return self.msrs[i].1;
            }
        }
        0
    }
    pub fn msr_set(&mut self, n: u32, v: u64) {
        for i in 0..self.nmsr {
            if self.msrs[i].0 == n {
                self.msrs[i].1 = v;
                return;
            }
        }
        if self.nmsr < self.msrs.len() {
            self.msrs[self.nmsr] = (n, v);
            self.nmsr += 1;
        }
    }
    pub fn interrupts_enabled(&self) -> bool {
        self.rflags_sys & 0x200 != 0
    }
    pub fn set_if(&mut self, on: bool) {
        if on {
            self.rflags_sys |= 0x200
        } else {
            self.rflags_sys &= !0x200
        }
    }
    pub fn set_cpuid(&mut self, leaf: u32, regs: [u32; 4]) {
        for i in 0..self.ncpuid {
            if self.cpuid[i].0 == leaf {
                self.cpuid[i].1 = regs;
                return;
            }
        }
        self.cpuid[self.ncpuid] = (leaf, regs);
        self.ncpuid += 1;
    }
    fn log(&mut self, ev: Ev, rip: u64, len: usize) {
        if self.inv_stream.on {
            if let Ev::Invlpgb(rax, ecx, edx) = ev {
                self.inv_stream.feed(rax, ecx, edx);
                return;
            }
        }
        if self.nev < MAX_EV {
            self.events[self.nev] = Event { ev, rip, len: len as u8 };
            self.nev += 1;
        } else {
            self.overflow = true;
            self.dropped += 1;
            if self.dropped > 200_000 {
                // the code under test keeps executing sensitive instructions without end: report and leave
                unsafe { runaway() };
            }
        }
    }
}

/// (property, signature, case) to report if the current call never stops issuing sensitive instructions
pub static mut RUNAWAY: Option<(String, String, String)> = None;
unsafe fn runaway() -> ! {
    if let Some((prop, sig, case)) = RUNAWAY.as_ref() {
        let line = format!(
            "{{\"type\":\"violation\",\"prop\":{},\"part\":\"runaway\",\"sig\":{},\"case\":{},\"detail\":\"more than 200000 sensitive instructions in one call\",\"count\":1}}\n{{\"type\":\"summary\",\"prop\":{},\"part\":\"runaway\",\"evaluations\":1,\"nontrivial\":1,\"states\":0,\"transitions\":0,\"max_depth\":0,\"exhaustive\":false,\"violations\":1,\"hist\":{{}},\"samples\":[],\"notes\":[],\"caps\":[\"worker stopped at a non-terminating call\"]}}\n",
            crate::out::jstr(prop), crate::out::jstr(sig), crate::out::jstr(case), crate::out::jstr(prop)
        );
        libc::write(1, line.as_ptr() as *const libc::c_void, line.len());
    }
    libc::_exit(0);
}

pub fn panic_hook_notify() {
    unsafe {
        if CPU.mode == Mode::Step {
            CPU.stop_requested = true;
        }
    }
}

// ------------------------------------------------------------------------------------------------ register access in a ucontext

/// x86 register number (0 rax,1 rcx,2 rdx,3 rbx,4 rsp,5 rbp,6 rsi,7 rdi,8..15) -> index into gregs
fn greg(n: u8) -> usize {
    (match n {
        0 => libc::REG_RAX,
        1 => libc::REG_RCX,
        2 => libc::REG_RDX,
        3 => libc::REG_RBX,
        4 => libc::REG_RSP,
        5 => libc::REG_RBP,
        6 => libc::REG_RSI,
        7 => libc::REG_RDI,
        8 => libc::REG_R8,
        9 => libc::REG_R9,
        10 => libc::REG_R10,
        11 => libc::REG_R11,
        12 => libc::REG_R12,
        13 => libc::REG_R13,
        14 => libc::REG_R14,
        _ => libc::REG_R15,
    }) as usize
}
fn rd(uc: &ucontext_t, n: u8) -> u64 {
    uc.uc_mcontext.gregs[greg(n)] as u64
}
fn wr(uc: &mut ucontext_t, n: u8, v: u64) {
    uc.uc_mcontext.gregs[greg(n)] = v as i64;
}

struct Dec {
    len: usize,
    opsize16: bool,
    rep: bool, // F3
    rex: u8,
}
struct ModRm {
    md: u8,
    reg: u8,
    rm: u8,
    ea: u64, // effective address when md != 3
}

unsafe fn byte(rip: u64, off: usize) -> u8 {
    *((rip + off as u64) as *const u8)
}

/// decode ModRM (+SIB+disp) starting at rip+off; returns the operand and the number of bytes consumed
unsafe fn modrm(uc: &ucontext_t, rip: u64, off: usize, rex: u8, insn_len_after: usize) -> (ModRm, usize) {
    let b = byte(rip, off);
    let md = b >> 6;
    let reg = ((b >> 3) & 7) | ((rex & 4) << 1);
    let rm_lo = b & 7;
    let mut used = 1usize;
    let mut ea: u64 = 0;
    let mut rm = rm_lo | ((rex & 1) << 3);
    if md != 3 {
        if rm_lo == 4 {
            let sib = byte(rip, off + used);
            used += 1;
            let scale = 1u64 << (sib >> 6);
            let index = ((sib >> 3) & 7) | ((rex & 2) << 2);
            let base = (sib & 7) | ((rex & 1) << 3);
            if index != 4 {
                ea = ea.wrapping_add(rd(uc, index).wrapping_mul(scale));
            }
            if (sib & 7) == 5 && md == 0 {
                let d = i32::from_le_bytes([byte(rip, off + used), byte(rip, off + used + 1), byte(rip, off + used + 2), byte(rip, off + used + 3)]);
                used += 4;
                ea = ea.wrapping_add(d as i64 as u64);
            } else {
                ea = ea.wrapping_add(rd(uc, base));
            }
            rm = base;
        } else if rm_lo == 5 && md == 0 {
            let d = i32::from_le_bytes([byte(rip, off + used), byte(rip, off + used + 1), byte(rip, off + used + 2), byte(rip, off + used + 3)]);
            used += 4;
            // RIP-relative: relative to the end of the instruction
            ea = (rip + (off + used + insn_len_after) as u64).wrapping_add(d as i64 as u64);
        } else {
            ea = rd(uc, rm);
        }
        if md == 1 {
            ea = ea.wrapping_add(byte(rip, off + used) as i8 as i64 as u64);
            used += 1;
        } else if md == 2 {
            let d = i32::from_le_bytes([byte(rip, off + used), byte(rip, off + used + 1), byte(rip, off + used + 2), byte(rip, off + used + 3)]);
            used += 4;
            ea = ea.wrapping_add(d as i64 as u64);
        }
    }
    (ModRm { md, reg, rm, ea }, used)
}

/// Try to emulate the instruction at RIP. Returns true if it was a sensitive instruction (now applied, RIP advanced).
pub unsafe fn emulate(uc: &mut ucontext_t) -> bool {
    let c = &mut CPU;
    let rip = uc.uc_mcontext.gregs[libc::REG_RIP as usize] as u64;
    let mut d = Dec { len: 0, opsize16: false, rep: false, rex: 0 };
    // legacy prefixes
    loop {
        match byte(rip, d.len) {
            0x66 => d.opsize16 = true,
            0xF3 => d.rep = true,
            0xF2 | 0x2E | 0x36 | 0x3E | 0x26 | 0x64 | 0x65 => {}
            _ => break,
        }
        d.len += 1;
        if d.len > 4 {
            return false;
        }
    }
    let b = byte(rip, d.len);
    if (0x40..=0x4f).contains(&b) {
        d.rex = b & 0xf;
        d.len += 1;
    }
    let op = byte(rip, d.len);
    let o = d.len; // offset of the opcode byte
    macro_rules! done {
        ($len:expr, $ev:expr) => {{
            c.log($ev, rip, $len);
            uc.uc_mcontext.gregs[libc::REG_RIP as usize] = (rip + $len as u64) as i64;
            return true;
        }};
    }
    match op {
        0xFA => {
            c.set_if(false);
            done!(o + 1, Ev::Cli)
        }
        0xFB => {
            c.set_if(true);
            done!(o + 1, Ev::Sti)
        }
        0xF4 => done!(o + 1, Ev::Hlt),
        0x9C if !d.opsize16 => {
            let real = uc.uc_mcontext.gregs[libc::REG_EFL as usize] as u64;
            let v = (real & ARITH) | (c.rflags_sys & !ARITH) | 2;
            let rsp = rd(uc, 4) - 8;
            *(rsp as *mut u64) = v;
            wr(uc, 4, rsp);
            done!(o + 1, Ev::Pushf(v))
        }
        0x9D if !d.opsize16 => {
            let rsp = rd(uc, 4);
            let v = *(rsp as *const u64);
            wr(uc, 4, rsp + 8);
            let real = uc.uc_mcontext.gregs[libc::REG_EFL as usize] as u64;
            uc.uc_mcontext.gregs[libc::REG_EFL as usize] = ((real & !ARITH) | (v & ARITH)) as i64;
            c.rflags_sys = v & !ARITH;
            done!(o + 1, Ev::Popf(v))
        }
        0xEC | 0xED | 0xE4 | 0xE5 => {
            let (port, l) = if op >= 0xEC { (rd(uc, 2) as u16, 1) } else { (byte(rip, o + 1) as u16, 2) };
            let width: u8 = if op & 1 == 0 { 8 } else if d.opsize16 { 16 } else { 32 };
            let rax = rd(uc, 0);
            let v = c.port_in;
            let (nr, val) = match width {
                8 => ((rax & !0xff) | (v as u64 & 0xff), v & 0xff),
                16 => ((rax & !0xffff) | (v as u64 & 0xffff), v & 0xffff),
                _ => (v as u64, v),
            };
            wr(uc, 0, nr);
            c.port_in = c.port_in.wrapping_add(c.port_in_step);
            done!(o + l, Ev::In(port, width, val))
        }
        0xEE | 0xEF | 0xE6 | 0xE7 => {
            let (port, l) = if op >= 0xEE { (rd(uc, 2) as u16, 1) } else { (byte(rip, o + 1) as u16, 2) };
            let width: u8 = if op & 1 == 0 { 8 } else if d.opsize16 { 16 } else { 32 };
            let rax = rd(uc, 0);
            let val = match width {
                8 => rax as u32 & 0xff,
                16 => rax as u32 & 0xffff,
                _ => rax as u32,
            };
            done!(o + l, Ev::Out(port, width, val))
        }
        0xCC => done!(o + 1, Ev::Int3),
        0xCD => done!(o + 2, Ev::Int(byte(rip, o + 1))),
        0xCF if d.rex & 8 != 0 && c.iret_cont != 0 => {
            let rsp = rd(uc, 4) as *const u64;
            let ev = Ev::Iretq(*rsp, *rsp.add(1), *rsp.add(2), *rsp.add(3), *rsp.add(4));
            c.log(ev, rip, o + 1);
            uc.uc_mcontext.gregs[libc::REG_RIP as usize] = c.iret_cont as i64;
            wr(uc, 4, c.iret_rsp);
            return true;
        }
        0xCB if d.rex & 8 != 0 => {
            let rsp = rd(uc, 4);
            let nrip = *(rsp as *const u64);
            let ncs = *((rsp + 8) as *const u64);
            c.sel[1] = ncs as u16;
            c.log(Ev::Retfq(nrip, ncs), rip, o + 1);
            wr(uc, 4, rsp + 16);
            uc.uc_mcontext.gregs[libc::REG_RIP as usize] = nrip as i64;
            return true;
        }
        0x8E => {
            let (m, used) = modrm(uc, rip, o + 1, d.rex, 0);
            let v = if m.md == 3 { rd(uc, m.rm) as u16 } else { *(m.ea as *const u16) };
            let s = m.reg & 7;
            if s > 5 {
                return false;
            }
            c.sel[s as usize] = v;
            done!(o + 1 + used, Ev::MovToSeg(s, v))
        }
        0x8C => {
            let (m, used) = modrm(uc, rip, o + 1, d.rex, 0);
            let s = m.reg & 7;
            if s > 5 {
                return false;
            }
            let v = c.sel[s as usize];
            if m.md == 3 {
                let old = rd(uc, m.rm);
                let nv = if d.opsize16 { (old & !0xffff) | v as u64 } else { v as u64 };
                wr(uc, m.rm, nv);
            } else {
                *(m.ea as *mut u16) = v;
            }
            done!(o + 1 + used, Ev::MovFromSeg(s, v))
        }
        0x0F => {
            let op2 = byte(rip, o + 1);
            match op2 {
                0x20 | 0x21 | 0x22 | 0x23 => {
                    let b = byte(rip, o + 2);
                    let n = ((b >> 3) & 7) | ((d.rex & 4) << 1);
                    let r = (b & 7) | ((d.rex & 1) << 3);
                    let ev = match op2 {
                        0x20 => {
                            let v = c.cr[n as usize];
                            wr(uc, r, v);
                            Ev::ReadCr(n, v)
                        }
                        0x22 => {
                            let v = rd(uc, r);
                            c.cr[n as usize] = if n == 3 { v & !(1u64 << 63) } else { v };
                            if n == 3 && c.cr3_write_store != 0 {
                                core::ptr::write_volatile(c.cr3_write_store as *mut u64, (v & 0x000f_ffff_ffff_f000) | 3);
                            }
                            Ev::WriteCr(n, v)
                        }
                        0x21 => {
                            let v = c.dr[n as usize];
                            wr(uc, r, v);
                            Ev::ReadDr(n, v)
                        }
                        _ => {
                            let v = rd(uc, r);
                            c.dr[n as usize] = v;
                            Ev::WriteDr(n, v)
                        }
                    };
                    done!(o + 3, ev)
                }
                0x32 => {
                    let n = rd(uc, 1) as u32;
                    let v = match n {
                        _ => c.msr_get(n),
                    };
                    wr(uc, 0, v & 0xffff_ffff);
                    wr(uc, 2, v >> 32);
                    done!(o + 2, Ev::Rdmsr(n, v))
                }
                0x30 => {
                    let n = rd(uc, 1) as u32;
                    let (rax, rdx) = (rd(uc, 0), rd(uc, 2));
                    let v = (rdx & 0xffff_ffff) << 32 | (rax & 0xffff_ffff);
                    c.msr_set(n, v);
                    done!(o + 2, Ev::Wrmsr(n, v, rax, rdx))
                }
                0xA2 => {
                    let leaf = rd(uc, 0) as u32;
                    let sub = rd(uc, 1) as u32;
                    for i in 0..c.ncpuid {
                        if c.cpuid[i].0 == leaf {
                            let r = c.cpuid[i].1;
                            wr(uc, 0, r[0] as u64);
                            wr(uc, 3, r[1] as u64);
                            wr(uc, 1, r[2] as u64);
                            wr(uc, 2, r[3] as u64);
                            done!(o + 2, Ev::Cpuid(leaf, sub))
                        }
                    }
                    false
                }
                0x01 => {
                    let b = byte(rip, o + 2);
                    match b {
                        0xD0 => {
                            let n = rd(uc, 1) as u32;
                            let v = c.xcr0;
                            wr(uc, 0, v & 0xffff_ffff);
                            wr(uc, 2, v >> 32);
                            done!(o + 3, Ev::Xgetbv(n, v))
                        }
                        0xD1 => {
                            let n = rd(uc, 1) as u32;
                            let v = (rd(uc, 2) & 0xffff_ffff) << 32 | (rd(uc, 0) & 0xffff_ffff);
                            if n == 0 {
                                c.xcr0 = v;
                            }
                            done!(o + 3, Ev::Xsetbv(n, v))
                        }
                        0xF8 => {
                            let g = c.msr_get(MSR_GS_BASE);
                            let k = c.msr_get(MSR_KGS_BASE);
                            c.msr_set(MSR_GS_BASE, k);
                            c.msr_set(MSR_KGS_BASE, g);
                            done!(o + 3, Ev::Swapgs)
                        }
                        0xFE => done!(o + 3, Ev::Invlpgb(rd(uc, 0), rd(uc, 1) as u32, rd(uc, 2) as u32)),
                        0xFF => done!(o + 3, Ev::Tlbsync),
                        _ => {
                            let (m, used) = modrm(uc, rip, o + 2, d.rex, 0);
                            if m.md == 3 {
                                return false;
                            }
                            let l = o + 2 + used;
                            match m.reg & 7 {
                                7 => done!(l, Ev::Invlpg(m.ea)),
                                2 | 3 => {
                                    let limit = *(m.ea as *const u16);
                                    let base = core::ptr::read_unaligned((m.ea + 2) as *const u64);
                                    if m.reg & 7 == 2 {
                                        c.gdtr = (limit, base);
                                        done!(l, Ev::Lgdt(limit, base, m.ea))
                                    } else {
                                        c.idtr = (limit, base);
                                        done!(l, Ev::Lidt(limit, base, m.ea))
                                    }
                                }
                                0 | 1 => {
                                    let (limit, base) = if m.reg & 7 == 0 { c.gdtr } else { c.idtr };
                                    *(m.ea as *mut u16) = limit;
                                    core::ptr::write_unaligned((m.ea + 2) as *mut u64, base);
                                    if m.reg & 7 == 0 {
                                        done!(l, Ev::Sgdt(m.ea))
                                    } else {
                                        done!(l, Ev::Sidt(m.ea))
                                    }
                                }
                                _ => false,
                            }
                        }
                    }
                }
                0x00 => {
                    let (m, used) = modrm(uc, rip, o + 2, d.rex, 0);
                    let v = if m.md == 3 { rd(uc, m.rm) as u16 } else { *(m.ea as *const u16) };
                    match m.reg & 7 {
                        3 => {
                            c.tr = v;
                            done!(o + 2 + used, Ev::Ltr(v))
                        }
                        2 => {
                            c.ldtr = v;
                            done!(o + 2 + used, Ev::Lldt(v))
                        }
                        _ => false,
                    }
                }
                0xAE => {
                    let (m, used) = modrm(uc, rip, o + 2, d.rex, 0);
                    let l = o + 2 + used;
                    if d.rep && m.md == 3 {
                        // rdfsbase/rdgsbase/wrfsbase/wrgsbase
                        let w64 = d.rex & 8 != 0;
                        let which = (m.reg & 1) as u8;
                        let msr = if which == 0 { MSR_FS_BASE } else { MSR_GS_BASE };
                        match m.reg & 7 {
                            0 | 1 => {
                                let v = c.msr_get(msr);
                                wr(uc, m.rm, if w64 { v } else { v & 0xffff_ffff });
                                done!(l, Ev::RdBase(which, v))
                            }
                            2 | 3 => {
                                let v = if w64 { rd(uc, m.rm) } else { rd(uc, m.rm) & 0xffff_ffff };
                                c.msr_set(msr, v);
                                done!(l, Ev::WrBase(which, v))
                            }
                            _ => false,
                        }
                    } else if !d.rep && m.md != 3 {
                        match m.reg & 7 {
                            2 => {
                                let v = *(m.ea as *const u32);
                                c.mxcsr = v;
                                done!(l, Ev::Ldmxcsr(v))
                            }
                            3 => {
                                *(m.ea as *mut u32) = c.mxcsr;
                                done!(l, Ev::Stmxcsr(c.mxcsr))
                            }
                            _ => false,
                        }
                    } else {
                        false
                    }
                }
                0x38 if d.opsize16 && byte(rip, o + 2) == 0x82 => {
                    let (m, used) = modrm(uc, rip, o + 3, d.rex, 0);
                    if m.md == 3 {
                        return false;
                    }
                    let ty = rd(uc, m.reg);
                    let d0 = core::ptr::read_unaligned(m.ea as *const u64);
                    let d1 = core::ptr::read_unaligned((m.ea + 8) as *const u64);
                    done!(o + 3 + used, Ev::Invpcid(ty, d0, d1))
                }
                _ => false,
            }
        }
        _ => false,
    }
}

/// signal entry (called from sig.rs after the memory environments declined)
pub unsafe fn on_signal(sig: c_int, info: *mut siginfo_t, uc: &mut ucontext_t) -> bool {
    let c = &mut CPU;
    if !c.armed {
        return false;
    }
    if sig == libc::SIGTRAP {
        if c.mode != Mode::Step {
            return false;
        }
        let _ = info;
        loop {
            c.steps += 1;
            let rip = uc.uc_mcontext.gregs[libc::REG_RIP as usize] as u64;
            if rip == c.step_end || c.stop_requested {
                uc.uc_mcontext.gregs[libc::REG_EFL as usize] &= !0x100;
                c.mode = Mode::Off;
                c.stop_requested = false;
                return true;
            }
            if rip >= c.trace_lo && rip < c.trace_hi && c.nitrace < c.itrace.len() {
                let p = rip as *const u8;
                c.itrace[c.nitrace] = (rip, [*p, *p.add(1), *p.add(2), *p.add(3)]);
                c.nitrace += 1;
            }
            if !emulate(uc) {
                break;
            }
        }
        return true;
    }
    // SIGSEGV (#GP) / SIGILL (#UD) at a privileged instruction
    if emulate(uc) {
        if c.mode == Mode::Step {
            // keep inspecting: the next instruction would execute before the next trap
            loop {
                let rip = uc.uc_mcontext.gregs[libc::REG_RIP as usize] as u64;
                if rip == c.step_end || c.stop_requested {
                    uc.uc_mcontext.gregs[libc::REG_EFL as usize] &= !0x100;
                    c.mode = Mode::Off;
                    c.stop_requested = false;
                    break;
                }
                if !emulate(uc) {
                    break;
                }
            }
        }
        return true;
    }
    c.unknown_fault = uc.uc_mcontext.gregs[libc::REG_RIP as usize] as u64;
    false
}

#[inline(never)]
#[no_mangle]
pub extern "C" fn vh_step_end_marker() {
    unsafe { core::arch::asm!("nop", options(nomem, nostack)) };
}

/// Run `f` under single-stepping with every sensitive instruction emulated. Returns Err on panic.
pub fn run_stepped<R>(f: impl FnOnce() -> R) -> Result<R, ()> {
    unsafe {
        CPU.step_end = vh_step_end_marker as usize as u64;
        CPU.stop_requested = false;
        core::ptr::write_volatile(core::ptr::addr_of_mut!(CPU.mode), Mode::Step);
        core::arch::asm!("", options(nostack));
    }
    let r = crate::out::catch(|| {
        unsafe {
            core::arch::asm!("pushfq", "or qword ptr [rsp], 0x100", "popfq", "nop");
        }
        let r = f();
        vh_step_end_marker();
        r
    });
    unsafe {
        if CPU.mode == Mode::Step {
            // a panic left the stepped region through the panic hook; make sure TF is off
            CPU.stop_requested = true;
            core::arch::asm!("nop", "nop");
            CPU.mode = Mode::Off;
            CPU.stop_requested = false;
        }
    }
    r
}

/// Keep fault-mode emulation switched on (for sweeps that must also catch instructions the optimiser moved out of the call).
pub fn fault_mode_on() {
    unsafe {
        core::ptr::write_volatile(core::ptr::addr_of_mut!(CPU.mode), Mode::Fault);
        core::arch::asm!("", options(nostack));
    }
}
/// Run `f` with emulation already on (fault_mode_on); only catches panics and fences the event window.
pub fn run_window<R>(f: impl FnOnce() -> R) -> Result<R, ()> {
    unsafe { core::arch::asm!("", options(nostack)) };
    let r = crate::out::catch(f);
    unsafe { core::arch::asm!("", options(nostack)) };
    r
}

/// Run `f` natively; privileged instructions trap and are emulated.
pub fn run_fault<R>(f: impl FnOnce() -> R) -> Result<R, ()> {
    unsafe {
        core::ptr::write_volatile(core::ptr::addr_of_mut!(CPU.mode), Mode::Fault);
        // compiler barrier: the signal handler reads the register file; the wrappers' asm blocks are `nomem`
        core::arch::asm!("", options(nostack));
    }
    let r = crate::out::catch(f);
    unsafe {
        core::arch::asm!("", options(nostack));
        core::ptr::write_volatile(core::ptr::addr_of_mut!(CPU.mode), Mode::Off);
    }
    r
}

pub fn init() {
    crate::sig::install();
    // prime std's CPU feature cache before any stepping
    let _ = std::is_x86_feature_detected!("avx2");
    cpu().reset();
    unsafe {
        core::ptr::write_volatile(core::ptr::addr_of_mut!(CPU.armed), true);
        core::arch::asm!("", options(nostack));
    }
}
