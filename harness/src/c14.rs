//! C14 — GDT contents, selectors and limit always agree.  Explicit DFS over append histories.
use crate::out::*;
use crate::Args;
use x86_64::structures::gdt::{Descriptor, DescriptorFlags, GlobalDescriptorTable};
use x86_64::structures::tss::TaskStateSegment;

fn user_vals() -> Vec<u64> {
    let mut v = vec![
        DescriptorFlags::KERNEL_CODE64.bits(), // default
        0,
        u64::MAX,
        DescriptorFlags::KERNEL_DATA.bits(),
        DescriptorFlags::KERNEL_CODE32.bits(),
        DescriptorFlags::USER_DATA.bits(),
        DescriptorFlags::USER_CODE32.bits(),
        DescriptorFlags::USER_CODE64.bits(),
    ];
    for dpl in 0..4u64 {
        v.push(dpl << 45);
        v.push(!(3u64 << 45) | (dpl << 45));
    }
    v
}
fn sys_vals() -> Vec<(u64, u64)> {
    let t = match unsafe { Descriptor::tss_segment_unchecked(0xffff_8123_4567_89a0 as *const TaskStateSegment) } {
        Descriptor::SystemSegment(a, b) => (a, b),
        _ => (0, 0),
    };
    let mut v = vec![t, (0, 0), (u64::MAX, u64::MAX), (0x1111_2222_3333_4444, 0x5555_6666_7777_8888)];
    for dpl in 1..4u64 {
        v.push((t.0 | (dpl << 45), t.1));
    }
    v
}

struct Cx<'a> {
    r: &'a mut Rep,
    uv: Vec<u64>,
    sv: Vec<(u64, u64)>,
    max_dev: u32,
    shard: usize,
    nshards: usize,
    leaf: usize,
}

fn raw<const M: usize>(g: &GlobalDescriptorTable<M>) -> Vec<u64> {
    g.entries().iter().map(|e| e.raw()).collect()
}

fn check_state<const M: usize>(cx: &mut Cx, g: &GlobalDescriptorTable<M>, reference: &[u64], hist: &str) {
    let got = raw(g);
    if got != reference {
        cx.r.viol(&format!("C14|MAX={}|entries-differ-from-appended-descriptors", M), hist, &format!("{:x?} vs {:x?}", got, reference));
    }
    if g.limit() as usize != 8 * reference.len() - 1 {
        cx.r.viol(&format!("C14|MAX={}|limit-wrong", M), hist, &format!("{} for {} slots", g.limit(), reference.len()));
    }
    if reference.len() > M {
        cx.r.viol(&format!("C14|MAX={}|table-grew-beyond-capacity", M), hist, "");
    }
    // rebuilding from raw entries reproduces the table
    match catch(|| GlobalDescriptorTable::<M>::from_raw_entries(reference)) {
        Ok(h) => {
            if raw(&h) != reference || h.limit() != g.limit() {
                cx.r.viol(&format!("C14|MAX={}|from_raw_entries-does-not-reproduce", M), hist, "");
            }
        }
        Err(()) => cx.r.viol(&format!("C14|MAX={}|from_raw_entries-rejects-valid-slice", M), hist, ""),
    }
    // differential: the rebuilt table and a clone continue exactly like the original (one more append of each kind)
    for d in [Descriptor::UserSegment(DescriptorFlags::USER_DATA.bits()), Descriptor::SystemSegment(0x0000_8900_0000_0067, 7)] {
        let step = |mut t: GlobalDescriptorTable<M>| catch(move || { let s = t.append(d); (s.0, raw(&t), t.limit()) });
        let a = step(g.clone());
        let b = catch(|| GlobalDescriptorTable::<M>::from_raw_entries(reference)).map(step);
        if b != Ok(a) {
            cx.r.viol(&format!("C14|MAX={}|table-rebuilt-from-raw-entries-or-cloned-continues-differently", M), hist, "");
        }
    }
}

/// a table filled to capacity with non-zero descriptors
fn full_table<const M: usize>() -> GlobalDescriptorTable<M> {
    let mut g = GlobalDescriptorTable::<M>::empty();
    for _ in 1..M {
        g.append(Descriptor::UserSegment(u64::MAX));
    }
    g
}

/// object reuse: the same table state held by an object that was a full table before (clone_from over a longer table) and by
/// one that was an empty table before continues exactly like a fresh clone
fn reuse_check<const M: usize>(cx: &mut Cx, g: &GlobalDescriptorTable<M>, d: Descriptor, reference: &[u64], hs: &str) {
    let mut g2 = g.clone();
    let res = catch(|| g2.append(d));
    for (what, mut g3) in [("full", full_table::<M>()), ("empty", GlobalDescriptorTable::<M>::empty())] {
        g3.clone_from(g);
        let before = (raw(&g3), g3.limit());
        let res3 = catch(|| g3.append(d));
        if before != (reference.to_vec(), (8 * reference.len() - 1) as u16) || res3.map(|x| x.0) != res.map(|x| x.0) || raw(&g3) != raw(&g2) || g3.limit() != g2.limit() {
            cx.r.viol(&format!("C14|MAX={}|table-assigned-with-clone_from-over-a-{}-table-differs-or-continues-differently", M, what), hs, &format!("{:x?} vs {:x?}", raw(&g3), raw(&g2)));
        }
    }
}

fn dfs<const M: usize>(cx: &mut Cx, g: &GlobalDescriptorTable<M>, reference: &Vec<u64>, depth: usize, dev: u32, hist: &mut Vec<String>) {
    if depth > M {
        return;
    }
    // choices: (descriptor, deviation cost)
    let mut choices: Vec<(Descriptor, u32)> = Vec::new();
    for (i, &v) in cx.uv.iter().enumerate() {
        choices.push((Descriptor::UserSegment(v), (i > 0) as u32));
    }
    for (i, &(a, b)) in cx.sv.iter().enumerate() {
        choices.push((Descriptor::SystemSegment(a, b), (i > 0) as u32));
    }
    for (d, cost) in choices {
        if dev + cost > cx.max_dev {
            continue;
        }
        // shard on the first append
        if depth == 0 {
            cx.leaf += 1;
            if cx.leaf % cx.nshards != cx.shard {
                continue;
            }
        }
        cx.r.transitions += 1;
        let (need, slots): (usize, Vec<u64>) = match d {
            Descriptor::UserSegment(v) => (1, vec![v]),
            Descriptor::SystemSegment(a, b) => (2, vec![a, b]),
        };
        let low = slots[0];
        hist.push(match d {
            Descriptor::UserSegment(v) => format!("U:{:x}", v),
            Descriptor::SystemSegment(a, b) => format!("S:{:x}:{:x}", a, b),
        });
        let hs = format!("gdt {} {}", M, hist.join(" "));
        let mut g2 = g.clone();
        let res = catch(|| g2.append(d));
        let fits = reference.len() + need <= M;
        reuse_check(cx, g, d, reference, &hs);
        match res {
            Ok(sel) => {
                if !fits {
                    cx.r.viol(&format!("C14|MAX={}|append-beyond-capacity-succeeded", M), &hs, "");
                } else {
                    let mut ref2 = reference.clone();
                    ref2.extend_from_slice(&slots);
                    let exp_sel = ((reference.len() as u16) << 3) | ((low >> 45) & 3) as u16;
                    if sel.0 != exp_sel {
                        cx.r.viol(&format!("C14|MAX={}|selector-wrong", M), &hs, &format!("{:#x} expected {:#x}", sel.0, exp_sel));
                    }
                    // the selector as seen through its own accessors
                    if catch(|| (sel.index() as usize, sel.rpl() as u16)) != Ok((reference.len(), ((low >> 45) & 3) as u16)) {
                        cx.r.viol(&format!("C14|MAX={}|selector-index-or-rpl-accessor-disagrees-with-the-slot", M), &hs, &format!("index() {:?}", catch(|| sel.index())));
                    }
                    cx.r.bucket(if need == 1 { "append-user-ok" } else { "append-system-ok" });
                    check_state(cx, &g2, &ref2, &hs);
                    cx.r.states += 1;
                    cx.r.max_depth = cx.r.max_depth.max(depth as u64 + 1);
                    dfs(cx, &g2, &ref2, depth + 1, dev + cost, hist);
                }
            }
            Err(()) => {
                if fits {
                    cx.r.viol(&format!("C14|MAX={}|append-panics-although-it-fits", M), &hs, "");
                } else {
                    cx.r.bucket(if need == 1 { "append-user-overflow-panic" } else { "append-system-overflow-panic" });
                    // the table must be unchanged
                    if raw(&g2) != *reference || g2.limit() as usize != 8 * reference.len() - 1 {
                        cx.r.viol(&format!("C14|MAX={}|failed-append-changed-the-table", M), &hs, &format!("{:x?}", raw(&g2)));
                    }
                }
            }
        }
        hist.pop();
    }
}

fn explore<const M: usize>(r: &mut Rep, a: &Args, max_dev: u32) {
    let mut cx = Cx { r, uv: user_vals(), sv: sys_vals(), max_dev, shard: a.shard, nshards: a.nshards, leaf: 0 };
    let g = GlobalDescriptorTable::<M>::empty();
    let reference = vec![0u64];
    check_state(&mut cx, &g, &reference, &format!("gdt {} (empty)", M));
    dfs(&mut cx, &g, &reference, 0, 0, &mut Vec::new());
    // invalid raw slices
    if a.shard == 0 {
        let too_long: Vec<u64> = vec![0; M + 1];
        for (n, sl) in [("empty", &[][..]), ("nonzero-first", &[1u64][..]), ("too-long", &too_long[..])] {
            cx.r.ev(true);
            if catch(|| GlobalDescriptorTable::<M>::from_raw_entries(sl)).is_ok() {
                cx.r.viol(&format!("C14|MAX={}|from_raw_entries-accepts-{}", M, n), &format!("gdtraw {} {}", M, n), "");
            }
        }
    }
}

/// every other way to obtain a fresh table (new, Default, from_raw_entries(&[0]), clone) is the same initial state
fn explore_ctors(r: &mut Rep, a: &Args) {
    let ctors: [(&str, fn() -> GlobalDescriptorTable<8>); 5] = [
        ("new", || GlobalDescriptorTable::new()),
        ("default", || Default::default()),
        ("from_raw_entries(&[0])", || GlobalDescriptorTable::<8>::from_raw_entries(&[0])),
        ("new().clone()", || GlobalDescriptorTable::new().clone()),
        ("mem::take(&mut appended)", || { let mut g = GlobalDescriptorTable::new(); g.append(Descriptor::kernel_code_segment()); let _old = core::mem::take(&mut g); g }),
    ];
    for (name, f) in ctors {
        let mut cx = Cx { r, uv: user_vals(), sv: sys_vals(), max_dev: 1, shard: a.shard, nshards: a.nshards, leaf: 0 };
        match catch(f) {
            Ok(g) => {
                let reference = vec![0u64];
                cx.r.ev(true);
                check_state(&mut cx, &g, &reference, &format!("gdt 8 ({})", name));
                dfs(&mut cx, &g, &reference, 0, 0, &mut vec![format!("({})", name)]);
            }
            Err(()) => cx.r.viol("C14|MAX=8|constructor-panics", &format!("gdt 8 ({})", name), ""),
        }
    }
}

/// Descriptor words are stored verbatim whatever they encode: every byte position x all 256 byte values on three
/// backgrounds, through from_raw_entries (as a one-slot entry and as either half of a two-slot entry), append(UserSegment)
/// and append(SystemSegment) (as either word).
fn byte_sweep(r: &mut Rep, a: &Args) {
    let tss = match unsafe { Descriptor::tss_segment_unchecked(0xffff_8123_4567_89a0 as *const TaskStateSegment) } {
        Descriptor::SystemSegment(x, _) => x,
        _ => 0,
    };
    let mut n = 0usize;
    for bg in [0u64, u64::MAX, tss, DescriptorFlags::KERNEL_CODE64.bits()] {
        for pos in 0..8u32 {
            for v in 0..256u64 {
                n += 1;
                if n % a.nshards != a.shard {
                    continue;
                }
                let w = (bg & !(0xffu64 << (8 * pos))) | v << (8 * pos);
                r.transitions += 1;
                let case = format!("gdtbytes {:#x}", w);
                let other = 0x1357_9bdf_0246_8aceu64;
                let res = catch(|| {
                    let a1 = raw(&GlobalDescriptorTable::<4>::from_raw_entries(&[0, w]));
                    let a2 = raw(&GlobalDescriptorTable::<4>::from_raw_entries(&[0, w, other]));
                    let a3 = raw(&GlobalDescriptorTable::<4>::from_raw_entries(&[0, other, w]));
                    let mut g = GlobalDescriptorTable::<4>::empty();
                    let s1 = g.append(Descriptor::UserSegment(w));
                    let b1 = raw(&g);
                    let mut g = GlobalDescriptorTable::<4>::empty();
                    let s2 = g.append(Descriptor::SystemSegment(w, other));
                    let b2 = raw(&g);
                    let mut g = GlobalDescriptorTable::<4>::empty();
                    g.append(Descriptor::SystemSegment(other, w));
                    let b3 = raw(&g);
                    (a1, a2, a3, b1, b2, b3, s1.0, s2.0)
                });
                let rpl = ((w >> 45) & 3) as u16;
                if res != Ok((vec![0, w], vec![0, w, other], vec![0, other, w], vec![0, w], vec![0, w, other], vec![0, other, w], 8 | rpl, 8 | rpl)) {
                    r.viol("C14|descriptor-word-not-stored-verbatim-or-selector-wrong", &case, &format!("{:x?}", res));
                }
            }
        }
    }
}

fn fill_big(r: &mut Rep, pattern: &str) {
    const M: usize = 8192;
    let mut g: Box<GlobalDescriptorTable<M>> = Box::new(GlobalDescriptorTable::<M>::empty());
    let mut reference = vec![0u64];
    let mut i = 0u64;
    loop {
        let sys = match pattern { "user" => false, "system" => true, _ => i % 2 == 1 };
        let d = if sys { Descriptor::SystemSegment(0x9000_0000_0000 | i, i) } else { Descriptor::UserSegment(0x0020_9800_0000_0000 | i | ((i & 3) << 45)) };
        let need = if sys { 2 } else { 1 };
        let fits = reference.len() + need <= M;
        let gr: &mut GlobalDescriptorTable<M> = &mut g;
        let res = catch(|| gr.append(d));
        r.transitions += 1;
        match res {
            Ok(sel) if fits => {
                let low = match d { Descriptor::UserSegment(v) => v, Descriptor::SystemSegment(v, _) => v };
                if sel.0 != ((reference.len() as u16) << 3) | ((low >> 45) & 3) as u16 {
                    r.viol("C14|MAX=8192|selector-wrong", &format!("gdtfill {} at {}", pattern, i), &format!("{:#x}", sel.0));
                    break;
                }
                if catch(|| (sel.index() as usize, sel.rpl() as u16)) != Ok((reference.len(), ((low >> 45) & 3) as u16)) {
                    r.viol("C14|MAX=8192|selector-index-or-rpl-accessor-disagrees-with-the-slot", &format!("gdtfill {} at {}", pattern, i), &format!("index() {:?} for slot {}", catch(|| sel.index()), reference.len()));
                    break;
                }
                match d {
                    Descriptor::UserSegment(v) => reference.push(v),
                    Descriptor::SystemSegment(a, b) => {
                        reference.push(a);
                        reference.push(b)
                    }
                }
                if g.limit() as usize != 8 * reference.len() - 1 {
                    r.viol("C14|MAX=8192|limit-wrong", &format!("gdtfill {} at {}", pattern, i), "");
                    break;
                }
            }
            Ok(_) => {
                r.viol("C14|MAX=8192|append-beyond-capacity-succeeded", &format!("gdtfill {} at {}", pattern, i), "");
                break;
            }
            Err(()) => {
                if fits {
                    r.viol("C14|MAX=8192|append-panics-although-it-fits", &format!("gdtfill {} at {}", pattern, i), "");
                }
                break;
            }
        }
        i += 1;
    }
    let got: Vec<u64> = g.entries().iter().map(|e| e.raw()).collect();
    if got != reference {
        r.viol("C14|MAX=8192|entries-differ-from-appended-descriptors", &format!("gdtfill {}", pattern), "");
    }
    r.states += reference.len() as u64;
}

pub fn run(a: &Args) {
    let mut r = Rep::new("C14", "append-histories");
    if let Some(c) = &a.replay {
        // replay: re-run the recorded history
        let t: Vec<&str> = c.split_whitespace().collect();
        if t[0] == "gdt" && c.contains('(') && !c.contains("(empty)") {
            explore_ctors(&mut r, a);
        } else if t[0] == "gdt" {
            let m: usize = t[1].parse().unwrap();
            let mut descs = Vec::new();
            for x in &t[2..] {
                let p: Vec<&str> = x.split(':').collect();
                if p[0] == "U" {
                    descs.push(Descriptor::UserSegment(u64::from_str_radix(p[1], 16).unwrap()));
                } else if p[0] == "S" {
                    descs.push(Descriptor::SystemSegment(u64::from_str_radix(p[1], 16).unwrap(), u64::from_str_radix(p[2], 16).unwrap()));
                }
            }
            replay_hist(&mut r, m, &descs, c);
        } else if t[0] == "gdtbytes" {
            byte_sweep(&mut r, &Args { prop: "C14".into(), tier: "quick".into(), shard: 0, nshards: 1, replay: None, extra: vec![] });
        } else if t[0] == "gdtload" {
            crate::c12load::run_gdt(&mut r);
        } else {
            for p in ["user", "system", "alternating"] {
                fill_big(&mut r, p);
            }
        }
        r.emit();
        return;
    }
    let t = a.thorough();
    guarded(&mut r, "C14|MAX=1|unexpected-panic", || "gdt 1".into(), |r| explore::<1>(r, a, 3));
    guarded(&mut r, "C14|MAX=2|unexpected-panic", || "gdt 2".into(), |r| explore::<2>(r, a, 3));
    guarded(&mut r, "C14|MAX=3|unexpected-panic", || "gdt 3".into(), |r| explore::<3>(r, a, 3));
    guarded(&mut r, "C14|MAX=8|unexpected-panic", || "gdt 8".into(), |r| explore::<8>(r, a, if t { 3 } else { 2 }));
    guarded(&mut r, "C14|MAX=9|unexpected-panic", || "gdt 9".into(), |r| explore::<9>(r, a, if t { 3 } else { 2 }));
    guarded(&mut r, "C14|MAX=8|unexpected-panic", || "gdt 8 ctors".into(), |r| explore_ctors(r, a));
    guarded(&mut r, "C14|MAX=4|unexpected-panic", || "gdtbytes".into(), |r| byte_sweep(r, a));
    if a.shard == 0 {
        for p in ["user", "system", "alternating"] {
            guarded(&mut r, "C14|MAX=8192|unexpected-panic", || format!("gdtfill {}", p), |r| fill_big(r, p));
        }
        guarded(&mut r, "C14|const-context|unexpected-panic", || "constctx".into(), |r| crate::constctx::gdt(r));
        guarded(&mut r, "C14|load|unexpected-panic", || "gdtload".into(), |r| crate::c12load::run_gdt(r));
    }
    r.evals = 0;
    r.nontrivial = r.transitions;
    r.sample("gdt 3 U:20980000000000 S:ffff89a0... -> second append needs two slots, only one left: panic, table unchanged".into());
    r.note("initial states: empty() for every MAX, and new()/Default/from_raw_entries(&[0])/clone/mem::take for MAX=8; in every state the table rebuilt from its raw entries must continue identically; DFS over all {user,system}-kind append sequences up to MAX+1 appends for MAX in {1,2,3,8,9}; values: default per kind, each non-default value costs one deviation (bound 3; 2 for MAX>=8 in quick); MAX=8192: all-user/all-system/alternating fills to overflow");
    r.emit();
}

fn replay_hist(r: &mut Rep, m: usize, descs: &[Descriptor], case: &str) {
    macro_rules! go {
        ($M:literal) => {{
            let mut cx = Cx { r, uv: vec![], sv: vec![], max_dev: 0, shard: 0, nshards: 1, leaf: 0 };
            let mut g = GlobalDescriptorTable::<$M>::empty();
            let mut reference = vec![0u64];
            for d in descs {
                let (need, slots): (usize, Vec<u64>) = match *d {
                    Descriptor::UserSegment(v) => (1, vec![v]),
                    Descriptor::SystemSegment(a, b) => (2, vec![a, b]),
                };
                let fits = reference.len() + need <= $M;
                reuse_check(&mut cx, &g, *d, &reference, case);
                let gr = &mut g;
                let dd = *d;
                match catch(|| gr.append(dd)) {
                    Ok(sel) => {
                        if !fits {
                            cx.r.viol(&format!("C14|MAX={}|append-beyond-capacity-succeeded", $M), case, "");
                            break;
                        }
                        let exp = ((reference.len() as u16) << 3) | ((slots[0] >> 45) & 3) as u16;
                        if sel.0 != exp {
                            cx.r.viol(&format!("C14|MAX={}|selector-wrong", $M), case, "");
                        }
                        reference.extend_from_slice(&slots);
                        check_state(&mut cx, &g, &reference, case);
                    }
                    Err(()) => {
                        if fits {
                            cx.r.viol(&format!("C14|MAX={}|append-panics-although-it-fits", $M), case, "");
                        } else if raw(&g) != reference {
                            cx.r.viol(&format!("C14|MAX={}|failed-append-changed-the-table", $M), case, "");
                        }
                    }
                }
            }
        }};
    }
    match m {
        1 => go!(1),
        2 => go!(2),
        3 => go!(3),
        8 => go!(8),
        _ => go!(9),
    }
}
