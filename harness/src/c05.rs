//! C05 — stepping treats the canonical address space as one contiguous sequence.
use crate::b64::*;
use crate::out::*;
use crate::Args;
use std::iter::Step;
use x86_64::structures::paging::{Page, PageSize, PageTableIndex, Size1GiB, Size2MiB, Size4KiB};
use x86_64::VirtAddr;

const SPACE: u128 = 1u128 << 48;

fn exp_fwd(a: u64, n: u128, unit: u128) -> Option<u64> {
    let p = pos(a) as u128 + n * unit;
    if p < SPACE { Some(from_pos(p as u64)) } else { None }
}
fn exp_bwd(a: u64, n: u128, unit: u128) -> Option<u64> {
    let d = n * unit;
    if d <= pos(a) as u128 { Some(from_pos((pos(a) as u128 - d) as u64)) } else { None }
}

pub fn step_virt(r: &mut Rep, a: u64, n: usize) {
    let v = VirtAddr::new(a);
    let ef = exp_fwd(a, n as u128, 1);
    let eb = exp_bwd(a, n as u128, 1);
    r.ev(ef.map_or(true, |x| (x >> 47) != (a >> 47)) || eb.map_or(true, |x| (x >> 47) != (a >> 47)));
    let case = format!("virt {:#x} {:#x}", a, n);
    let gf = Step::forward_checked(v, n).map(|x| x.as_u64());
    if gf != ef {
        r.viol("C05|VirtAddr|forward_checked-wrong", &case, &format!("{:x?} expected {:x?}", gf, ef));
    }
    let gb = Step::backward_checked(v, n).map(|x| x.as_u64());
    if gb != eb {
        r.viol("C05|VirtAddr|backward_checked-wrong", &case, &format!("{:x?} expected {:x?}", gb, eb));
    }
    // panicking variants
    let pf = catch(|| Step::forward(v, n).as_u64()).ok();
    let pb = catch(|| Step::backward(v, n).as_u64()).ok();
    if pf != ef || pb != eb {
        r.viol("C05|VirtAddr|forward/backward-disagree-with-checked", &case, &format!("{:x?} {:x?}", pf, pb));
    }
    // unchecked variants, called in contract (the target position exists)
    if let Some(e) = ef {
        let g = catch(|| unsafe { Step::forward_unchecked(v, n) }.as_u64()).ok();
        if g != Some(e) {
            r.viol("C05|VirtAddr|forward_unchecked-wrong-in-contract", &case, &format!("{:x?} expected {:#x}", g, e));
        }
    }
    if let Some(e) = eb {
        let g = catch(|| unsafe { Step::backward_unchecked(v, n) }.as_u64()).ok();
        if g != Some(e) {
            r.viol("C05|VirtAddr|backward_unchecked-wrong-in-contract", &case, &format!("{:x?} expected {:#x}", g, e));
        }
    }
    // mutual inverses
    if let Some(b) = gf {
        let w = VirtAddr::new_truncate(b);
        if Step::backward_checked(w, n).map(|x| x.as_u64()) != Some(a) || Step::steps_between(&v, &w) != (n, Some(n)) {
            r.viol("C05|VirtAddr|not-mutually-inverse", &case, "forward then backward / steps_between");
        }
    }
    if let Some(b) = gb {
        let w = VirtAddr::new_truncate(b);
        if Step::forward_checked(w, n).map(|x| x.as_u64()) != Some(a) || Step::steps_between(&w, &v) != (n, Some(n)) {
            r.viol("C05|VirtAddr|not-mutually-inverse", &case, "backward then forward / steps_between");
        }
    }
}

pub fn between_virt(r: &mut Rep, a: u64, b: u64) {
    let exp = if b >= a { let d = (pos(b) - pos(a)) as usize; (d, Some(d)) } else { (0, None) };
    r.ev((a >> 47) != (b >> 47));
    // the derived ordering is the ascending order of the contiguous sequence
    if VirtAddr::new(a).cmp(&VirtAddr::new(b)) != pos(a).cmp(&pos(b)) || (VirtAddr::new(a) < VirtAddr::new(b)) != (pos(a) < pos(b)) {
        r.viol("C05|VirtAddr|ordering-is-not-the-position-order", &format!("between {:#x} {:#x}", a, b), "");
    }
    let g = Step::steps_between(&VirtAddr::new(a), &VirtAddr::new(b));
    if g != exp {
        r.viol("C05|VirtAddr|steps_between-wrong", &format!("between {:#x} {:#x}", a, b), &format!("{:x?} expected {:x?}", g, exp));
    }
}

pub fn step_page<S: PageSize>(r: &mut Rep, a: u64, n: usize) {
    let p = Page::<S>::from_start_address(VirtAddr::new(a)).unwrap();
    let ef = exp_fwd(a, n as u128, S::SIZE as u128);
    let eb = exp_bwd(a, n as u128, S::SIZE as u128);
    r.ev(ef.map_or(true, |x| (x >> 47) != (a >> 47)) || eb.map_or(true, |x| (x >> 47) != (a >> 47)));
    let case = format!("page {} {:#x} {:#x}", S::DEBUG_STR, a, n);
    let sig = |w: &str| format!("C05|Page<{}>|{}", S::DEBUG_STR, w);
    let gf = Step::forward_checked(p, n).map(|x| x.start_address().as_u64());
    if gf != ef {
        r.viol(&sig("forward_checked-wrong"), &case, &format!("{:x?} expected {:x?}", gf, ef));
    }
    let gb = Step::backward_checked(p, n).map(|x| x.start_address().as_u64());
    if gb != eb {
        r.viol(&sig("backward_checked-wrong"), &case, &format!("{:x?} expected {:x?}", gb, eb));
    }
    let pf = catch(|| Step::forward(p, n).start_address().as_u64()).ok();
    let pb = catch(|| Step::backward(p, n).start_address().as_u64()).ok();
    if pf != ef || pb != eb {
        r.viol(&sig("forward/backward-disagree-with-checked"), &case, &format!("{:x?} {:x?}", pf, pb));
    }
    if let Some(e) = ef {
        let g = catch(|| unsafe { Step::forward_unchecked(p, n) }.start_address().as_u64()).ok();
        if g != Some(e) {
            r.viol(&sig("forward_unchecked-wrong-in-contract"), &case, &format!("{:x?} expected {:#x}", g, e));
        }
    }
    if let Some(e) = eb {
        let g = catch(|| unsafe { Step::backward_unchecked(p, n) }.start_address().as_u64()).ok();
        if g != Some(e) {
            r.viol(&sig("backward_unchecked-wrong-in-contract"), &case, &format!("{:x?} expected {:#x}", g, e));
        }
    }
    if let Some(b) = gf {
        let w = Page::<S>::containing_address(VirtAddr::new_truncate(b));
        if Step::backward_checked(w, n).map(|x| x.start_address().as_u64()) != Some(a) || Step::steps_between(&p, &w) != (n, Some(n)) {
            r.viol(&sig("not-mutually-inverse"), &case, "");
        }
    }
    if let Some(b) = gb {
        let w = Page::<S>::containing_address(VirtAddr::new_truncate(b));
        if Step::forward_checked(w, n).map(|x| x.start_address().as_u64()) != Some(a) || Step::steps_between(&w, &p) != (n, Some(n)) {
            r.viol(&sig("not-mutually-inverse"), &case, "");
        }
    }
}

pub fn between_page<S: PageSize>(r: &mut Rep, a: u64, b: u64) {
    let exp = if b >= a { let d = ((pos(b) - pos(a)) / S::SIZE) as usize; (d, Some(d)) } else { (0, None) };
    r.ev((a >> 47) != (b >> 47));
    {
        let (pa, pb) = (Page::<S>::containing_address(VirtAddr::new(a)), Page::<S>::containing_address(VirtAddr::new(b)));
        if pa.cmp(&pb) != pos(a).cmp(&pos(b)) || (pa < pb) != (pos(a) < pos(b)) || (pa == pb) != (a == b) {
            r.viol(&format!("C05|Page<{}>|ordering-is-not-the-position-order", S::DEBUG_STR), &format!("pbetween {} {:#x} {:#x}", S::DEBUG_STR, a, b), "");
        }
    }
    let g = Step::steps_between(
        &Page::<S>::from_start_address(VirtAddr::new(a)).unwrap(),
        &Page::<S>::from_start_address(VirtAddr::new(b)).unwrap(),
    );
    if g != exp {
        r.viol(&format!("C05|Page<{}>|steps_between-wrong", S::DEBUG_STR), &format!("pbetween {} {:#x} {:#x}", S::DEBUG_STR, a, b), &format!("{:x?} expected {:x?}", g, exp));
    }
}

pub fn step_index(r: &mut Rep, i: u16, n: usize) {
    step_index_tag(r, "C05", i, n);
}

/// the provided (panicking) Step methods and the open-ended range built on them: a value is returned only where the position
/// exists, and it is that position - in particular never an index outside 0..512 (C04)
pub fn index_provided(r: &mut Rep, tag: &str, i: u16, n: usize) {
    let x = PageTableIndex::new(i);
    let case = format!("index {} {:#x}", i, n);
    let ef = ((i as u128) + (n as u128) < 512).then(|| i + n as u16);
    let eb = (n <= i as usize).then(|| i - n as u16);
    let pf = catch(|| u16::from(Step::forward(x, n))).ok();
    let pb = catch(|| u16::from(Step::backward(x, n))).ok();
    r.ev(ef.is_none() || eb.is_none());
    if pf != ef || pb != eb {
        r.viol(&format!("{}|PageTableIndex|Step::forward/backward-return-an-index-where-none-exists-or-disagree-with-checked", tag), &case, &format!("{:?} {:?} expected {:?} {:?}", pf, pb, ef, eb));
    }
    if n <= 600 {
        // (x..) yields x, x+1, ... and must stop (panic) rather than yield an index >= 512
        let mut got: Vec<u16> = vec![];
        let _ = catch(std::panic::AssertUnwindSafe(|| {
            for v in (x..).take(n) {
                got.push(u16::from(v));
            }
        }));
        let want: Vec<u16> = (i..512).take(n).collect();
        if got.len() > want.len() || got[..] != want[..got.len()] || got.len() + 1 < want.len() {
            r.viol(&format!("{}|PageTableIndex|open-ended-range-yields-an-index-outside-0..512-or-wrong-items", tag), &case, &format!("{} items, last {:?}; expected {} items", got.len(), got.last(), want.len()));
        }
    }
}

pub fn step_index_tag(r: &mut Rep, tag: &str, i: u16, n: usize) {
    index_provided(r, tag, i, n);
    let x = PageTableIndex::new(i);
    r.ev((i as usize).saturating_add(n) >= 512 || n > i as usize);
    let case = format!("index {} {:#x}", i, n);
    let ef = ((i as u128) + (n as u128) < 512).then(|| i + n as u16);
    let eb = (n <= i as usize).then(|| i - n as u16);
    let gf = Step::forward_checked(x, n).map(u16::from);
    let gb = Step::backward_checked(x, n).map(u16::from);
    if gf != ef || gb != eb {
        r.viol("C05|PageTableIndex|forward/backward_checked-wrong", &case, &format!("{:?} {:?} expected {:?} {:?}", gf, gb, ef, eb));
    }
    let uf = ef.map(|_| catch(|| u16::from(unsafe { Step::forward_unchecked(x, n) })).ok());
    let ub = eb.map(|_| catch(|| u16::from(unsafe { Step::backward_unchecked(x, n) })).ok());
    if uf != ef.map(Some) || ub != eb.map(Some) {
        r.viol("C05|PageTableIndex|forward/backward_unchecked-wrong-in-contract", &case, &format!("{:?} {:?}", uf, ub));
    }
    if let Some(b) = gf {
        let w = PageTableIndex::new(b);
        if Step::backward_checked(w, n).map(u16::from) != Some(i) || Step::steps_between(&x, &w) != (n, Some(n)) {
            r.viol("C05|PageTableIndex|not-mutually-inverse", &case, "");
        }
    }
}

/// core::ops::Range / RangeInclusive over a Step type: whatever Step methods core uses (checked, unchecked, nth via forward...),
/// the items must be the `len` consecutive positions starting at `a`.
pub fn range_iter<T: Step + Copy>(r: &mut Rep, name: &str, a: u64, len: u64, unit: u64, mk: impl Fn(u64) -> T, rd: impl Fn(T) -> u64) {
    let case = format!("riter {} {:#x} {}", name, a, len);
    let sig = |w: &str| format!("C05|{}|{}", name, w);
    let Some(e_end) = exp_fwd(a, len as u128, unit as u128) else { return };
    let items: Vec<u64> = (0..len).map(|i| exp_fwd(a, i as u128, unit as u128).unwrap()).collect();
    r.ev(items.iter().any(|x| (x >> 47) != (a >> 47)) || (e_end >> 47) != (a >> 47));
    let (s, e) = (mk(a), mk(e_end));
    let rdv = |v: Vec<T>| -> Vec<u64> { v.into_iter().map(&rd).collect() };
    match catch(|| rdv((s..e).take(64).collect())) {
        Ok(g) if g == items => {}
        o => r.viol(&sig("Range-iteration-wrong"), &case, &format!("{:x?} expected {:x?}", o, items)),
    }
    match catch(|| rdv((s..e).rev().take(64).collect())) {
        Ok(mut g) => {
            g.reverse();
            if g != items {
                r.viol(&sig("Range-reverse-iteration-wrong"), &case, &format!("{:x?} expected {:x?}", g, items));
            }
        }
        Err(()) => r.viol(&sig("Range-reverse-iteration-wrong"), &case, "panic"),
    }
    if catch(|| ((s..e).size_hint(), (s..e).take(64).count())) != Ok(((len as usize, Some(len as usize)), len as usize)) {
        r.viol(&sig("Range-size_hint/count-wrong"), &case, "");
    }
    for k in 0..=len + 1 {
        let exp = items.get(k as usize).copied();
        let g = catch(|| (s..e).nth(k as usize).map(&rd));
        let gb = catch(|| (s..e).nth_back(k as usize).map(&rd));
        let expb = if k < len { Some(items[(len - 1 - k) as usize]) } else { None };
        if g != Ok(exp) || gb != Ok(expb) {
            r.viol(&sig("Range-nth/nth_back-wrong"), &case, &format!("k={} {:x?} {:x?} expected {:x?} {:x?}", k, g, gb, exp, expb));
        }
        if k >= 1 {
            let exp: Vec<u64> = items.iter().copied().step_by(k as usize).collect();
            if catch(|| rdv((s..e).step_by(k as usize).take(64).collect())) != Ok(exp) {
                r.viol(&sig("Range-step_by-wrong"), &case, &format!("k={}", k));
            }
        }
    }
    // inclusive range ending at the last item
    if len > 0 {
        let last = mk(items[len as usize - 1]);
        match catch(|| rdv((s..=last).take(64).collect())) {
            Ok(g) if g == items => {}
            o => r.viol(&sig("RangeInclusive-iteration-wrong"), &case, &format!("{:x?} expected {:x?}", o, items)),
        }
        if catch(|| (s..=last).nth(len as usize - 1).map(&rd)) != Ok(Some(items[len as usize - 1])) || catch(|| (s..=last).take(64).count()) != Ok(len as usize) {
            r.viol(&sig("RangeInclusive-nth/count-wrong"), &case, "");
        }
    }
}

fn sweep_riter(r: &mut Rep, a: &Args) {
    let starts = |unit: u64| -> Vec<u64> {
        let mut v: Vec<u64> = Vec::new();
        for anchor in [0u64, 0x1000_0000_0000, GAP_LO_END + 1 - 0, 0x8000_0000_0000 /* position of the first upper-half address */, (1 << 48) - unit] {
            for back in 0..=5u64 {
                if let Some(p) = (anchor & ((1u64 << 48) - 1)).checked_sub(back * unit) {
                    v.push(from_pos(p & !(unit - 1)));
                }
            }
            let p = anchor & ((1u64 << 48) - 1);
            if p + unit < (1 << 48) {
                v.push(from_pos((p + unit) & !(unit - 1)));
            }
        }
        v.sort_unstable();
        v.dedup();
        v
    };
    let mut i = 0usize;
    for len in 0..=6u64 {
        for &s in &starts(1) {
            i += 1;
            if i % a.nshards == a.shard {
                guarded(r, "C05|VirtAddr|unexpected-panic", || format!("riter VirtAddr {:#x} {}", s, len), |r| range_iter(r, "VirtAddr", s, len, 1, VirtAddr::new, |v: VirtAddr| v.as_u64()));
            }
        }
        for &s in &starts(0x1000) {
            i += 1;
            if i % a.nshards == a.shard {
                guarded(r, "C05|Page<4KiB>|unexpected-panic", || format!("riter Page<4KiB> {:#x} {}", s, len), |r| range_iter(r, "Page<4KiB>", s, len, 0x1000, |x| Page::<Size4KiB>::containing_address(VirtAddr::new(x)), |p: Page<Size4KiB>| p.start_address().as_u64()));
            }
        }
        for &s in &starts(0x20_0000) {
            i += 1;
            if i % a.nshards == a.shard {
                guarded(r, "C05|Page<2MiB>|unexpected-panic", || format!("riter Page<2MiB> {:#x} {}", s, len), |r| range_iter(r, "Page<2MiB>", s, len, 0x20_0000, |x| Page::<Size2MiB>::containing_address(VirtAddr::new(x)), |p: Page<Size2MiB>| p.start_address().as_u64()));
            }
        }
        for &s in &starts(0x4000_0000) {
            i += 1;
            if i % a.nshards == a.shard {
                guarded(r, "C05|Page<1GiB>|unexpected-panic", || format!("riter Page<1GiB> {:#x} {}", s, len), |r| range_iter(r, "Page<1GiB>", s, len, 0x4000_0000, |x| Page::<Size1GiB>::containing_address(VirtAddr::new(x)), |p: Page<Size1GiB>| p.start_address().as_u64()));
            }
        }
    }
}

fn counts(points: &[u64], unit: u64) -> Vec<usize> {
    let mut c: Vec<u64> = vec![0, 1, 2, 3, 4, (1 << 47) - 1, 1 << 47, (1 << 47) + 1, (1 << 48) - 1, 1 << 48, (1 << 48) + 1, u64::MAX, u64::MAX - 1, 1 << 63];
    for &a in points {
        for &b in points {
            if b >= a {
                let d = (pos(b) - pos(a)) / unit;
                c.push(d);
                c.push(d + 1);
                c.push(d.wrapping_sub(1));
            }
        }
    }
    // counts whose product with the unit overflows u64
    if unit > 1 {
        let q = u64::MAX / unit;
        c.extend_from_slice(&[q, q + 1, q - 1, (1u64 << 48) / unit, (1u64 << 48) / unit + 1, (1u64 << 48) / unit - 1]);
    }
    c.sort_unstable();
    c.dedup();
    c.into_iter().map(|x| x as usize).collect()
}

fn sweep_page<S: PageSize>(r: &mut Rep, a: &Args) {
    let al = |v: Vec<u64>| {
        let mut v: Vec<u64> = v.into_iter().map(|x| x & !(S::SIZE - 1)).collect();
        v.sort_unstable();
        v.dedup();
        v
    };
    let small = al(canon_small());
    let all = al({ let mut v = canon(); v.extend(canon_small()); v });
    let cs = counts(&small, S::SIZE);
    let big: Vec<usize> = if a.thorough() { counts(&all, S::SIZE) } else { Vec::new() };
    for (i, &s) in all.iter().enumerate() {
        if i % a.nshards != a.shard {
            continue;
        }
        let cset: &[usize] = if a.thorough() && small.binary_search(&s).is_ok() { &big } else { &cs };
        for &n in cset {
            guarded(r, &format!("C05|Page<{}>|unexpected-panic", S::DEBUG_STR), || format!("page {} {:#x} {:#x}", S::DEBUG_STR, s, n), |r| step_page::<S>(r, s, n));
        }
        for &t in &all {
            guarded(r, &format!("C05|Page<{}>|unexpected-panic", S::DEBUG_STR), || format!("pbetween {} {:#x} {:#x}", S::DEBUG_STR, s, t), |r| between_page::<S>(r, s, t));
        }
    }
}

pub fn run(a: &Args) {
    let h = |s: &str| u64::from_str_radix(s.trim_start_matches("0x"), 16).unwrap();
    if let Some(c) = &a.replay {
        let mut r = Rep::new("C05", "replay");
        let t: Vec<&str> = c.split_whitespace().collect();
        match t[0] {
            "virt" => step_virt(&mut r, h(t[1]), h(t[2]) as usize),
            "between" => between_virt(&mut r, h(t[1]), h(t[2])),
            "riter" => {
                let (st, len) = (h(t[2]), t[3].parse().unwrap());
                match t[1] {
                    "VirtAddr" => range_iter(&mut r, "VirtAddr", st, len, 1, VirtAddr::new, |v: VirtAddr| v.as_u64()),
                    "Page<4KiB>" => range_iter(&mut r, "Page<4KiB>", st, len, 0x1000, |x| Page::<Size4KiB>::containing_address(VirtAddr::new(x)), |p: Page<Size4KiB>| p.start_address().as_u64()),
                    "Page<2MiB>" => range_iter(&mut r, "Page<2MiB>", st, len, 0x20_0000, |x| Page::<Size2MiB>::containing_address(VirtAddr::new(x)), |p: Page<Size2MiB>| p.start_address().as_u64()),
                    _ => range_iter(&mut r, "Page<1GiB>", st, len, 0x4000_0000, |x| Page::<Size1GiB>::containing_address(VirtAddr::new(x)), |p: Page<Size1GiB>| p.start_address().as_u64()),
                }
            }
            "index" => step_index(&mut r, t[1].parse().unwrap(), h(t[2]) as usize),
            "page" => match t[1] {
                "4KiB" => step_page::<Size4KiB>(&mut r, h(t[2]), h(t[3]) as usize),
                "2MiB" => step_page::<Size2MiB>(&mut r, h(t[2]), h(t[3]) as usize),
                _ => step_page::<Size1GiB>(&mut r, h(t[2]), h(t[3]) as usize),
            },
            "pbetween" => match t[1] {
                "4KiB" => between_page::<Size4KiB>(&mut r, h(t[2]), h(t[3])),
                "2MiB" => between_page::<Size2MiB>(&mut r, h(t[2]), h(t[3])),
                _ => between_page::<Size1GiB>(&mut r, h(t[2]), h(t[3])),
            },
            _ => panic!(),
        }
        r.emit();
        return;
    }
    if std::env::var_os("VH_DEBUG").is_some() { dbg_sizes(); }
    let mut r = Rep::new("C05", &format!("step-{}", profile()));
    let small = canon_small();
    let all = { let mut v = canon(); v.extend(canon_small()); v.sort_unstable(); v.dedup(); v };
    let cs = counts(&small, 1);
    let big: Vec<usize> = if a.thorough() { counts(&all, 1) } else { Vec::new() };
    for (i, &s) in all.iter().enumerate() {
        if i % a.nshards != a.shard {
            continue;
        }
        let cset: &[usize] = if a.thorough() && small.binary_search(&s).is_ok() { &big } else { &cs };
        for &n in cset {
            guarded(&mut r, "C05|VirtAddr|unexpected-panic", || format!("virt {:#x} {:#x}", s, n), |r| step_virt(r, s, n));
        }
        for &t in &all {
            guarded(&mut r, "C05|VirtAddr|unexpected-panic", || format!("between {:#x} {:#x}", s, t), |r| between_virt(r, s, t));
        }
    }
    sweep_page::<Size4KiB>(&mut r, a);
    sweep_page::<Size2MiB>(&mut r, a);
    sweep_page::<Size1GiB>(&mut r, a);
    sweep_riter(&mut r, a);
    // table indices: all 512 x all counts 0..=1024 (exhaustive) plus large counts
    for i in 0..512u16 {
        if i as usize % a.nshards != a.shard {
            continue;
        }
        for n in 0..=1024usize {
            guarded(&mut r, "C05|PageTableIndex|unexpected-panic", || format!("index {} {:#x}", i, n), |r| step_index(r, i, n));
        }
        for n in [usize::MAX, usize::MAX - 1, 1 << 16, (1 << 16) + 1, 1 << 32, 65535 - i as usize, 65536 - i as usize] {
            step_index(&mut r, i, n);
        }
        for j in 0..512u16 {
            let e = if j >= i { ((j - i) as usize, Some((j - i) as usize)) } else { (0, None) };
            let (xi, xj) = (PageTableIndex::new(i), PageTableIndex::new(j));
            if xi.cmp(&xj) != i.cmp(&j) {
                r.viol("C05|PageTableIndex|ordering-wrong", &format!("ibetween {} {}", i, j), "");
            }
            if j >= i && j - i <= 4 || j == 511 {
                let exp: Vec<u16> = (i..j).collect();
                if catch(|| (xi..xj).map(u16::from).collect::<Vec<u16>>()) != Ok(exp.clone()) || catch(|| (xi..xj).rev().map(u16::from).collect::<Vec<u16>>()) != Ok(exp.iter().rev().copied().collect())
                    || catch(|| (xi..xj).count()) != Ok(exp.len()) || catch(|| (xi..xj).nth(2).map(u16::from)) != Ok(exp.get(2).copied())
                    || catch(|| (xi..=xj).map(u16::from).collect::<Vec<u16>>()) != Ok((i..=j).collect())
                {
                    r.viol("C05|PageTableIndex|Range-iteration-wrong", &format!("ibetween {} {}", i, j), "");
                }
            }
            if Step::steps_between(&PageTableIndex::new(i), &PageTableIndex::new(j)) != e {
                r.viol("C05|PageTableIndex|steps_between-wrong", &format!("ibetween {} {}", i, j), "");
            }
            r.ev(j < i);
        }
    }
    r.sample("virt 0x7fffffffffff 0x1 (forward jumps the gap)".into());
    r.sample("page 2MiB 0xffff800000000000 0x1 (backward jumps the gap)".into());
    r.sample("index 511 0x1".into());
    r.note("counts: 0..4, every pairwise distance between boundary positions +-1, 2^47+-1, 2^48+-1, usize::MAX, overflow of count*SIZE; PageTableIndex: all 512 x counts 0..=1024 exhaustive");
    r.emit();
}
pub fn dbg_sizes() {
    let small = canon_small();
    eprintln!("small {} all {} counts {}", small.len(), canon().len(), counts(&small, 1).len());
}
