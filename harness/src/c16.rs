//! C16 — system-register wrappers hit the right register and never lose bits (E4, step mode).
use crate::arch::*;
use crate::b64::*;
use crate::out::*;
use crate::simcpu::{cpu, run_stepped, Ev};
use crate::Args;
use x86_64::instructions::segmentation::{Segment, Segment64, CS, DS, ES, FS, GS, SS};
use x86_64::instructions::tables::{lgdt, lidt, load_tss, sgdt, sidt};
use x86_64::instructions::tlb::Pcid;
use x86_64::registers::control::{Cr0, Cr0Flags, Cr2, Cr3, Cr3Flags, Cr4, Cr4Flags};
use x86_64::registers::debug::{DebugAddressRegister, Dr0, Dr1, Dr2, Dr3, Dr6, Dr7, Dr7Value};
use x86_64::registers::model_specific::*;
use x86_64::registers::mxcsr::{self, MxCsr};
use x86_64::registers::rflags::{self, RFlags};
use x86_64::registers::segmentation::SegmentSelector;
use x86_64::registers::xcontrol::{XCr0, XCr0Flags};
use x86_64::structures::paging::{Page, PhysFrame, Size4KiB};
use x86_64::structures::DescriptorTablePointer;
use x86_64::{PhysAddr, VirtAddr};

fn stepped<R>(f: impl FnOnce() -> R) -> (Result<R, ()>, Vec<Ev>) {
    cpu().clear_events();
    let r = run_stepped(f);
    (r, cpu().evs())
}

/// single-bit / boundary register contents
fn contents() -> Vec<u64> {
    let mut v = vec![0u64, u64::MAX, 0x0123_4567_89ab_cdef, 0xfedc_ba98_7654_3210, 0xaaaa_aaaa_aaaa_aaaa, 0x5555_5555_5555_5555];
    for b in 0..64 {
        v.push(1u64 << b);
        v.push(!(1u64 << b));
    }
    v
}
fn thin(a: &Args, v: Vec<u64>) -> Vec<u64> {
    if a.thorough() { v } else { v.into_iter().enumerate().filter(|(i, _)| i % 3 == 0 || *i < 8).map(|x| x.1).collect() }
}

struct T<'a> {
    r: &'a mut Rep,
}
impl T<'_> {
    fn bad(&mut self, wrapper: &str, what: &str, case: &str, detail: String) {
        self.r.viol(&format!("C16|{}|{}", wrapper, what), &format!("reg {}", case), &detail);
    }
    /// events must be exactly `exp`
    fn expect(&mut self, wrapper: &str, case: &str, got: &[Ev], exp: &[Ev]) -> bool {
        self.r.ev(true);
        self.r.transitions += got.len() as u64;
        // WRMSR only consumes EAX/EDX: the upper halves of RAX/RDX are don't-care
        let norm = |v: &[Ev]| -> Vec<Ev> { v.iter().map(|e| if let Ev::Wrmsr(n, val, _, _) = e { Ev::Wrmsr(*n, *val, 0, 0) } else { *e }).collect() };
        let (got, exp) = (&norm(got)[..], &norm(exp)[..]);
        if got != exp {
            // classify
            let what = if got.len() != exp.len() {
                "wrong-number-of-register-accesses"
            } else {
                let mut w = "wrong-value-written-or-read";
                for (g, e) in got.iter().zip(exp.iter()) {
                    if core::mem::discriminant(g) != core::mem::discriminant(e) {
                        w = "wrong-instruction";
                        break;
                    }
                    let reg_differs = match (g, e) {
                        (Ev::ReadCr(a, _), Ev::ReadCr(b, _)) | (Ev::WriteCr(a, _), Ev::WriteCr(b, _)) | (Ev::ReadDr(a, _), Ev::ReadDr(b, _)) | (Ev::WriteDr(a, _), Ev::WriteDr(b, _)) => a != b,
                        (Ev::Rdmsr(a, _), Ev::Rdmsr(b, _)) | (Ev::Wrmsr(a, ..), Ev::Wrmsr(b, ..)) | (Ev::Xgetbv(a, _), Ev::Xgetbv(b, _)) | (Ev::Xsetbv(a, _), Ev::Xsetbv(b, _)) => a != b,
                        (Ev::MovToSeg(a, _), Ev::MovToSeg(b, _)) | (Ev::MovFromSeg(a, _), Ev::MovFromSeg(b, _)) | (Ev::RdBase(a, _), Ev::RdBase(b, _)) | (Ev::WrBase(a, _), Ev::WrBase(b, _)) => a != b,
                        _ => false,
                    };
                    if reg_differs {
                        w = "wrong-register";
                        break;
                    }
                }
                w
            };
            self.bad(wrapper, what, case, format!("events {:x?} expected {:x?}", got, exp));
            return false;
        }
        true
    }
}

fn wr(msr: u32, v: u64) -> Ev {
    Ev::Wrmsr(msr, v, v & 0xffff_ffff, v >> 32)
}

macro_rules! flags_reg {
    ($t:expr, $a:expr, $name:literal, $Reg:ident, $Flags:ident, $tab:expr, $n:expr, $slot:ident) => {{
        let all: u64 = $tab.iter().fold(0, |x, y| x | y.1);
        let mut fsets: Vec<u64> = vec![0, all];
        for (_, b) in $tab.iter() {
            fsets.push(*b);
            fsets.push(all & !*b);
        }
        // every pair of flags (no combination of two flags is special); thorough: every subset of the first 11 flags
        for (i, (_, b1)) in $tab.iter().enumerate() {
            for (_, b2) in $tab.iter().skip(i + 1) {
                fsets.push(*b1 | *b2);
            }
        }
        fsets.sort_unstable();
        fsets.dedup();
        let mut subsets: Vec<u64> = Vec::new();
        if $a.thorough() {
            let k = $tab.len().min(11);
            for sub in 0..(1u32 << k) {
                subsets.push($tab.iter().take(k).enumerate().filter(|(i, _)| sub >> i & 1 == 1).fold(0u64, |x, (_, y)| x | y.1));
            }
        }
        for old in thin($a, contents()) {
            cpu().$slot[$n] = old;
            // read_raw / read
            let (rv, ev) = stepped(|| ($Reg::read_raw(), $Reg::read().bits()));
            let case = format!("{} read old={:#x}", $name, old);
            if $t.expect($name, &case, &ev, &[Ev::ReadCr($n as u8, old), Ev::ReadCr($n as u8, old)]) {
                if rv != Ok((old, old & all)) {
                    $t.bad($name, "typed-read-is-not-the-modelled-bits", &case, format!("{:x?}", rv));
                }
            }
            let simple_prior = !(old.count_ones() > 1 && old.count_ones() < 63);
            for &f in fsets.iter().chain(subsets.iter().filter(|_| simple_prior)) {
                if !$a.thorough() && f.count_ones() > 1 && f != all && !simple_prior {
                    continue;
                }
                cpu().$slot[$n] = old;
                let newv = (old & !all) | f;
                let (_, ev) = stepped(|| unsafe { $Reg::write($Flags::from_bits_truncate(f)) });
                let case = format!("{} write old={:#x} flags={:#x}", $name, old, f);
                $t.expect($name, &case, &ev, &[Ev::ReadCr($n as u8, old), Ev::WriteCr($n as u8, newv)]);
                // round trip
                let (rv, _) = stepped(|| $Reg::read().bits());
                if rv != Ok(f) {
                    $t.bad($name, "write-then-read-does-not-round-trip", &case, format!("{:x?}", rv));
                }
            }
            // update: read-modify-write toggling one flag
            cpu().$slot[$n] = old;
            let tog = $tab[($n + old.count_ones() as usize) % $tab.len()].1;
            let (_, ev) = stepped(|| unsafe { $Reg::update(|f| f.toggle($Flags::from_bits_truncate(tog))) });
            let writes: Vec<&Ev> = ev.iter().filter(|e| matches!(e, Ev::WriteCr(..))).collect();
            let only_this = ev.iter().all(|e| matches!(e, Ev::ReadCr(n, v) if *n == $n as u8 && *v == old) || matches!(e, Ev::WriteCr(n, _) if *n == $n as u8));
            let expv = (old & !all) | ((old & all) ^ tog);
            $t.r.ev(true);
            if !only_this || writes.len() != 1 || *writes[0] != Ev::WriteCr($n as u8, expv) || !matches!(ev.first(), Some(Ev::ReadCr(..))) {
                $t.bad($name, "update-is-not-read-modify-write", &format!("{} update old={:#x} toggle={:#x}", $name, old, tog), format!("{:x?}", ev));
            }
            // update == read(); f(); write() also when the closure itself touches the register through the raw accessors
            // (differential: both routes from the same prior content must leave the same register content)
            for bit in [(!all) & (!all).wrapping_neg(), 1u64 << (63 - (!all).leading_zeros().min(63)), tog] {
                if bit == 0 {
                    continue;
                }
                cpu().$slot[$n] = old;
                let _ = stepped(|| unsafe { $Reg::update(|f| { f.toggle($Flags::from_bits_truncate(tog)); $Reg::write_raw($Reg::read_raw() ^ bit) }) });
                let via_update = cpu().$slot[$n];
                cpu().$slot[$n] = old;
                let _ = stepped(|| unsafe { let mut f = $Reg::read(); f.toggle($Flags::from_bits_truncate(tog)); $Reg::write_raw($Reg::read_raw() ^ bit); $Reg::write(f) });
                let via_rmw = cpu().$slot[$n];
                $t.r.ev(true);
                if via_update != via_rmw {
                    $t.bad($name, "update-differs-from-read-modify-write-when-the-closure-touches-the-register", &format!("{} update old={:#x} toggle={:#x} closure-xor={:#x}", $name, old, tog, bit), format!("{:#x} vs {:#x}", via_update, via_rmw));
                }
            }
            // raw write
            let (_, ev) = stepped(|| unsafe { $Reg::write_raw(!old) });
            $t.expect($name, &format!("{} write_raw {:#x}", $name, !old), &ev, &[Ev::WriteCr($n as u8, !old)]);
        }
    }};
}

/// Pat::read over register images with every byte value in every slot: the typed read decodes each byte exactly like
/// PatMemoryType::from_bits and rejects (panics on) an image that contains an encoding from_bits rejects
pub fn pat_images(r: &mut Rep, tag: &str) {
    crate::simcpu::init();
    let dflt: u64 = (0..8).fold(0u64, |x, i| x | (Pat::DEFAULT[i].bits() as u64) << (8 * i));
    for slot in 0..8usize {
        for b in 0..=255u64 {
            let raw = (dflt & !(0xffu64 << (8 * slot))) | b << (8 * slot);
            cpu().msr_set(MSR_PAT, raw);
            let (rv, _) = stepped(|| Pat::read().map(|t| t.bits()));
            r.ev(true);
            let mut exp: Result<[u8; 8], ()> = Ok([0; 8]);
            for i in 0..8 {
                let byte = (raw >> (8 * i)) as u8;
                match (PatMemoryType::from_bits(byte), &mut exp) {
                    (Some(ty), Ok(e)) if ty.bits() == byte => e[i] = byte,
                    _ => exp = Err(()),
                }
            }
            if rv != exp {
                r.viol(&format!("{}|Pat::read|does-not-decode-each-byte-like-PatMemoryType::from_bits-or-accepts-an-invalid-encoding", tag), &format!("patimage slot {} byte {:#x}", slot, b), &format!("{:x?} expected {:x?}", rv, exp));
            }
        }
    }
}

fn control_regs(t: &mut T, a: &Args) {
    flags_reg!(t, a, "Cr0", Cr0, Cr0Flags, CR0, 0usize, cr);
    flags_reg!(t, a, "Cr4", Cr4, Cr4Flags, CR4, 4usize, cr);
    // CR2
    for old in contents() {
        cpu().cr[2] = old;
        let (rv, ev) = stepped(|| (Cr2::read_raw(), Cr2::read().map(|v| v.as_u64()).map_err(|e| e.0)));
        let case = format!("Cr2 read old={:#x}", old);
        if t.expect("Cr2", &case, &ev, &[Ev::ReadCr(2, old), Ev::ReadCr(2, old)]) {
            let e = if is_canon(old) { Ok(old) } else { Err(old) };
            if rv != Ok((old, e)) {
                t.bad("Cr2", "typed-read-wrong", &case, format!("{:x?}", rv));
            }
        }
    }
    // CR3
    let frames: Vec<u64> = vec![0, 0x1000, 0x5000, 0x000f_ffff_ffff_f000, 0x0008_0000_0000_0000, 0x1234_5678_9000];
    let lows: Vec<u64> = {
        let mut v = vec![0u64, 0x8, 0x10, 0x18, 0xfff, 0xa5];
        for b in 0..12 {
            v.push(1 << b);
        }
        v
    };
    for &fr in &frames {
        for &lo in &lows {
            for hi in [0u64, 1 << 63, 0xfff0_0000_0000_0000] {
                let old = fr | lo | hi;
                cpu().cr[3] = old;
                let (rv, ev) = stepped(|| {
                    let a = Cr3::read();
                    let b = Cr3::read_raw();
                    (a.0.start_address().as_u64(), a.1.bits(), b.0.start_address().as_u64(), b.1)
                });
                let case = format!("Cr3 read old={:#x}", old);
                if t.expect("Cr3", &case, &ev, &[Ev::ReadCr(3, old), Ev::ReadCr(3, old)]) {
                    if rv != Ok((fr, lo & 0x18, fr, lo as u16)) {
                        t.bad("Cr3", "typed-read-wrong", &case, format!("{:x?}", rv));
                    }
                }
                let (rv, _) = stepped(|| {
                    let a = Cr3::read_pcid();
                    (a.0.start_address().as_u64(), a.1.value())
                });
                if rv != Ok((fr, lo as u16)) {
                    t.bad("Cr3", "read_pcid-wrong", &case, format!("{:x?}", rv));
                }
            }
        }
    }
    let fr_of = |x: u64| PhysFrame::<Size4KiB>::from_start_address(PhysAddr::new(x)).unwrap();
    for &fr in &frames {
        for fl in [0u64, 0x8, 0x10, 0x18] {
            cpu().cr[3] = 0xffff_ffff_ffff_ffff;
            let (_, ev) = stepped(|| unsafe { Cr3::write(fr_of(fr), Cr3Flags::from_bits_truncate(fl)) });
            let case = format!("Cr3 write frame={:#x} flags={:#x}", fr, fl);
            t.expect("Cr3", &case, &ev, &[Ev::WriteCr(3, fr | fl)]);
            let (rv, _) = stepped(|| {
                let a = Cr3::read();
                (a.0.start_address().as_u64(), a.1.bits())
            });
            if rv != Ok((fr, fl)) {
                t.bad("Cr3", "write-then-read-does-not-round-trip", &case, format!("{:x?}", rv));
            }
        }
        // update
        cpu().cr[3] = fr | 0x10;
        let (_, ev) = stepped(|| unsafe { Cr3::update(|f, fl| { *f = fr_of(0x7000); fl.toggle(Cr3Flags::PAGE_LEVEL_WRITETHROUGH) }) });
        t.expect("Cr3", &format!("Cr3 update old={:#x}", fr | 0x10), &ev, &[Ev::ReadCr(3, fr | 0x10), Ev::WriteCr(3, 0x7000 | 0x18)]);
    }
    // all 4096 PCIDs
    for p in 0..4096u16 {
        if !a.thorough() && p % 7 != 0 && p.count_ones() > 1 && p != 4095 {
            continue;
        }
        let fr = frames[(p as usize) % frames.len()];
        let pc = Pcid::new(p).unwrap();
        let (_, ev) = stepped(|| unsafe { Cr3::write_pcid(fr_of(fr), pc) });
        let case = format!("Cr3 write_pcid frame={:#x} pcid={}", fr, p);
        t.expect("Cr3", &case, &ev, &[Ev::WriteCr(3, fr | p as u64)]);
        let (rv, _) = stepped(|| { let a = Cr3::read_pcid(); (a.0.start_address().as_u64(), a.1.value()) });
        if rv != Ok((fr, p)) {
            t.bad("Cr3", "write_pcid-then-read_pcid-does-not-round-trip", &case, format!("{:x?}", rv));
        }
        let (_, ev) = stepped(|| unsafe { Cr3::write_pcid_no_flush(fr_of(fr), pc) });
        t.expect("Cr3", &format!("Cr3 write_pcid_no_flush frame={:#x} pcid={}", fr, p), &ev, &[Ev::WriteCr(3, (1 << 63) | fr | p as u64)]);
        let (_, ev) = stepped(|| unsafe { Cr3::write_raw(fr_of(fr), p) });
        t.expect("Cr3", &format!("Cr3 write_raw frame={:#x} val={}", fr, p), &ev, &[Ev::WriteCr(3, fr | p as u64)]);
        if p % 512 == 0 {
            cpu().cr[3] = fr | p as u64;
            let np = Pcid::new(p ^ 0x155).unwrap();
            let (_, ev) = stepped(|| unsafe { Cr3::update_pcid(|f, q| { *f = fr_of(0x9000); *q = np }) });
            t.expect("Cr3", &format!("Cr3 update_pcid old={:#x}", fr | p as u64), &ev, &[Ev::ReadCr(3, fr | p as u64), Ev::WriteCr(3, 0x9000 | np.value() as u64)]);
            cpu().cr[3] = fr | p as u64;
            let (_, ev) = stepped(|| unsafe { Cr3::update_pcid_no_flush(|f, q| { *f = fr_of(0x9000); *q = np }) });
            t.expect("Cr3", &format!("Cr3 update_pcid_no_flush old={:#x}", fr | p as u64), &ev, &[Ev::ReadCr(3, fr | p as u64), Ev::WriteCr(3, (1 << 63) | 0x9000 | np.value() as u64)]);
        }
    }
}

fn debug_regs(t: &mut T, a: &Args) {
    macro_rules! dr {
        ($R:ident, $n:expr) => {
            for v in thin(a, contents()) {
                cpu().dr[$n] = v;
                let (rv, ev) = stepped(|| $R::read());
                let case = format!("Dr{} read {:#x}", $n, v);
                if t.expect(concat!("Dr", stringify!($n)), &case, &ev, &[Ev::ReadDr($n, v)]) && rv != Ok(v) {
                    t.bad(concat!("Dr", stringify!($n)), "read-wrong", &case, format!("{:x?}", rv));
                }
                let (_, ev) = stepped(|| $R::write(!v));
                t.expect(concat!("Dr", stringify!($n)), &format!("Dr{} write {:#x}", $n, !v), &ev, &[Ev::WriteDr($n, !v)]);
            }
        };
    }
    dr!(Dr0, 0);
    dr!(Dr1, 1);
    dr!(Dr2, 2);
    dr!(Dr3, 3);
    let d6all: u64 = DR6.iter().fold(0, |x, y| x | y.1);
    for v in thin(a, contents()) {
        cpu().dr[6] = v;
        let (rv, ev) = stepped(|| (Dr6::read_raw(), Dr6::read().bits()));
        let case = format!("Dr6 read {:#x}", v);
        if t.expect("Dr6", &case, &ev, &[Ev::ReadDr(6, v), Ev::ReadDr(6, v)]) && rv != Ok((v, v & d6all)) {
            t.bad("Dr6", "typed-read-is-not-the-modelled-bits", &case, format!("{:x?}", rv));
        }
    }
    let valid: u64 = DR7.iter().fold(0, |x, y| x | y.1) | 0xffff_0000;
    let mut vals: Vec<u64> = vec![0, valid, 0xffff_0000, 0x0000_03ff & valid];
    for b in 0..32 {
        if valid >> b & 1 == 1 {
            vals.push(1 << b);
            vals.push(valid & !(1 << b));
        }
    }
    for old in thin(a, contents()) {
        cpu().dr[7] = old;
        let (rv, ev) = stepped(|| (Dr7::read_raw(), Dr7::read().bits()));
        let case = format!("Dr7 read {:#x}", old);
        if t.expect("Dr7", &case, &ev, &[Ev::ReadDr(7, old), Ev::ReadDr(7, old)]) && rv != Ok((old, old & valid)) {
            t.bad("Dr7", "typed-read-is-not-the-modelled-bits", &case, format!("{:x?}", rv));
        }
        for &v in &vals {
            if !a.thorough() && old.count_ones() > 1 && old.count_ones() < 63 && v.count_ones() > 1 {
                continue;
            }
            cpu().dr[7] = old;
            let (_, ev) = stepped(|| Dr7::write(Dr7Value::from_bits(v).unwrap()));
            let case = format!("Dr7 write old={:#x} value={:#x}", old, v);
            t.expect("Dr7", &case, &ev, &[Ev::ReadDr(7, old), Ev::WriteDr(7, (old & !valid) | v)]);
            let (rv, _) = stepped(|| Dr7::read().bits());
            if rv != Ok(v) {
                t.bad("Dr7", "write-then-read-does-not-round-trip", &case, format!("{:x?}", rv));
            }
        }
        cpu().dr[7] = old;
        let (_, ev) = stepped(|| Dr7::update(|v| v.toggle_flags(x86_64::registers::debug::Dr7Flags::GENERAL_DETECT_ENABLE)));
        let writes: Vec<&Ev> = ev.iter().filter(|e| matches!(e, Ev::WriteDr(..))).collect();
        t.r.ev(true);
        if writes.len() != 1 || *writes[0] != Ev::WriteDr(7, (old & !valid) | ((old & valid) ^ (1 << 13))) || !ev.iter().all(|e| matches!(e, Ev::ReadDr(7, _) | Ev::WriteDr(7, _))) {
            t.bad("Dr7", "update-is-not-read-modify-write", &format!("Dr7 update old={:#x}", old), format!("{:x?}", ev));
        }
        for bit in [1u64 << 10, 1 << 12, 1 << 40, 1 << 13, 1 << 17] {
            use x86_64::registers::debug::Dr7Flags;
            cpu().dr[7] = old;
            let _ = stepped(|| Dr7::update(|v| { v.toggle_flags(Dr7Flags::GENERAL_DETECT_ENABLE); Dr7::write_raw(Dr7::read_raw() ^ bit) }));
            let via_update = cpu().dr[7];
            cpu().dr[7] = old;
            let _ = stepped(|| { let mut v = Dr7::read(); v.toggle_flags(Dr7Flags::GENERAL_DETECT_ENABLE); Dr7::write_raw(Dr7::read_raw() ^ bit); Dr7::write(v) });
            let via_rmw = cpu().dr[7];
            t.r.ev(true);
            if via_update != via_rmw {
                t.bad("Dr7", "update-differs-from-read-modify-write-when-the-closure-touches-the-register", &format!("Dr7 update old={:#x} closure-xor={:#x}", old, bit), format!("{:#x} vs {:#x}", via_update, via_rmw));
            }
        }
        let (_, ev) = stepped(|| Dr7::write_raw(!old));
        t.expect("Dr7", &format!("Dr7 write_raw {:#x}", !old), &ev, &[Ev::WriteDr(7, !old)]);
    }
}

fn xcr0_ok(f: u64) -> bool {
    // documented rejections: x87 must be set; AVX needs SSE; BNDREG/BNDCSR together; AVX-512 bits together and need AVX
    let b = |n: u32| f >> n & 1 == 1;
    if !b(0) { return false; }
    if b(2) && !b(1) { return false; }
    if b(3) != b(4) { return false; }
    let a512 = [b(5), b(6), b(7)];
    if a512.iter().any(|&x| x) { if !b(2) || !a512.iter().all(|&x| x) { return false; } }
    true
}

fn xcr_and_msrs(t: &mut T, a: &Args) {
    let all: u64 = XCR0.iter().fold(0, |x, y| x | y.1);
    // XCr0: every subset of the 8 low flags (256) x {MPK, LWP} patterns
    for old in thin(a, contents()) {
        cpu().xcr0 = old;
        let (rv, ev) = stepped(|| (XCr0::read_raw(), XCr0::read().bits()));
        let case = format!("XCr0 read {:#x}", old);
        if t.expect("XCr0", &case, &ev, &[Ev::Xgetbv(0, old), Ev::Xgetbv(0, old)]) && rv != Ok((old, old & all)) {
            t.bad("XCr0", "typed-read-is-not-the-modelled-bits", &case, format!("{:x?}", rv));
        }
        let (_, ev) = stepped(|| unsafe { XCr0::write_raw(!old) });
        t.expect("XCr0", &format!("XCr0 write_raw {:#x}", !old), &ev, &[Ev::Xsetbv(0, !old)]);
    }
    for sub in 0..256u64 {
        for extra in [0u64, 1 << 9, 1 << 62, (1 << 9) | (1 << 62)] {
            let f = sub | extra;
            let ok = xcr0_ok(f);
            // all 256 subsets of the low flags are always run (every documented rejection rule has one-bit neighbours);
            // the MPK/LWP extras are thinned in quick (rejected combinations cost a panic under stepping)
            if !a.thorough() && extra != 0 && (sub % 16 != 7 || !ok) && sub % 37 != 0 {
                continue;
            }
            let old = if sub % 2 == 0 { 0xffff_ffff_ffff_fc00u64 } else { 0x100 };
            cpu().xcr0 = old;
            let (rv, ev) = stepped(|| unsafe { XCr0::write(XCr0Flags::from_bits_truncate(f)) });
            let case = format!("XCr0 write old={:#x} flags={:#x}", old, f);
            t.r.ev(true);
            if ok {
                t.expect("XCr0", &case, &ev, &[Ev::Xgetbv(0, old), Ev::Xsetbv(0, (old & !all) | f)]);
            } else if rv.is_ok() || ev.iter().any(|e| matches!(e, Ev::Xsetbv(..))) {
                t.bad("XCr0", "documented-invalid-combination-not-rejected-or-written-anyway", &case, format!("{:x?}", ev));
            }
        }
    }
    // generic Msr
    for n in [0u32, 1, 0x1b, 0x277, 0xc000_0080, 0xc000_0102, 0xffff_ffff, 0x8000_0000, 0x1234_5678] {
        for v in thin(a, contents()) {
            cpu().msr_set(n, v);
            let (rv, ev) = stepped(|| unsafe { Msr::new(n).read() });
            let case = format!("Msr({:#x}) read {:#x}", n, v);
            if t.expect("Msr", &case, &ev, &[Ev::Rdmsr(n, v)]) && rv != Ok(v) {
                t.bad("Msr", "read-loses-bits", &case, format!("{:x?}", rv));
            }
            let (_, ev) = stepped(|| unsafe { Msr::new(n).write(!v) });
            t.expect("Msr", &format!("Msr({:#x}) write {:#x}", n, !v), &ev, &[wr(n, !v)]);
        }
    }
    // EFER (preserving)
    let eall: u64 = EFER.iter().fold(0, |x, y| x | y.1);
    let mut fsets: Vec<u64> = vec![0, eall];
    for (_, b) in EFER {
        fsets.push(*b);
        fsets.push(eall & !*b);
    }
    for old in thin(a, contents()) {
        cpu().msr_set(MSR_EFER, old);
        let (rv, ev) = stepped(|| (Efer::read_raw(), Efer::read().bits()));
        let case = format!("Efer read {:#x}", old);
        if t.expect("Efer", &case, &ev, &[Ev::Rdmsr(MSR_EFER, old), Ev::Rdmsr(MSR_EFER, old)]) && rv != Ok((old, old & eall)) {
            t.bad("Efer", "typed-read-is-not-the-modelled-bits", &case, format!("{:x?}", rv));
        }
        for &f in &fsets {
            if !a.thorough() && old.count_ones() > 1 && old.count_ones() < 63 && f.count_ones() > 1 {
                continue;
            }
            cpu().msr_set(MSR_EFER, old);
            let (_, ev) = stepped(|| unsafe { Efer::write(EferFlags::from_bits_truncate(f)) });
            let case = format!("Efer write old={:#x} flags={:#x}", old, f);
            t.expect("Efer", &case, &ev, &[Ev::Rdmsr(MSR_EFER, old), wr(MSR_EFER, (old & !eall) | f)]);
            let (rv, _) = stepped(|| Efer::read().bits());
            if rv != Ok(f) {
                t.bad("Efer", "write-then-read-does-not-round-trip", &case, format!("{:x?}", rv));
            }
        }
        cpu().msr_set(MSR_EFER, old);
        let (_, ev) = stepped(|| unsafe { Efer::update(|f| f.toggle(EferFlags::NO_EXECUTE_ENABLE)) });
        let writes: Vec<&Ev> = ev.iter().filter(|e| matches!(e, Ev::Wrmsr(..))).collect();
        t.r.ev(true);
        if writes.len() != 1 || *writes[0] != wr(MSR_EFER, (old & !eall) | ((old & eall) ^ (1 << 11))) || !ev.iter().all(|e| matches!(e, Ev::Rdmsr(MSR_EFER, _) | Ev::Wrmsr(MSR_EFER, ..))) {
            t.bad("Efer", "update-is-not-read-modify-write", &format!("Efer update old={:#x}", old), format!("{:x?}", ev));
        }
        for bit in [1u64 << 1, 1 << 9, 1 << 40, 1 << 11, 1 << 0] {
            cpu().msr_set(MSR_EFER, old);
            let _ = stepped(|| unsafe { Efer::update(|f| { f.toggle(EferFlags::NO_EXECUTE_ENABLE); Efer::write_raw(Efer::read_raw() ^ bit) }) });
            let via_update = cpu().msr_get(MSR_EFER);
            cpu().msr_set(MSR_EFER, old);
            let _ = stepped(|| unsafe { let mut f = Efer::read(); f.toggle(EferFlags::NO_EXECUTE_ENABLE); Efer::write_raw(Efer::read_raw() ^ bit); Efer::write(f) });
            let via_rmw = cpu().msr_get(MSR_EFER);
            t.r.ev(true);
            if via_update != via_rmw {
                t.bad("Efer", "update-differs-from-read-modify-write-when-the-closure-touches-the-register", &format!("Efer update old={:#x} closure-xor={:#x}", old, bit), format!("{:#x} vs {:#x}", via_update, via_rmw));
            }
        }
        let (_, ev) = stepped(|| unsafe { Efer::write_raw(!old) });
        t.expect("Efer", &format!("Efer write_raw {:#x}", !old), &ev, &[wr(MSR_EFER, !old)]);
    }
    // address MSRs
    macro_rules! addr_msr {
        ($R:ident, $n:expr) => {
            for v in canon() {
                cpu().msr_set($n, v);
                let (rv, ev) = stepped(|| $R::read().as_u64());
                let case = format!("{} read {:#x}", stringify!($R), v);
                if t.expect(stringify!($R), &case, &ev, &[Ev::Rdmsr($n, v)]) && rv != Ok(v) {
                    t.bad(stringify!($R), "read-wrong", &case, format!("{:x?}", rv));
                }
                let w = sext48(!v);
                let (_, ev) = stepped(|| $R::write(VirtAddr::new(w)));
                let case = format!("{} write {:#x}", stringify!($R), w);
                t.expect(stringify!($R), &case, &ev, &[wr($n, w)]);
                let (rv, _) = stepped(|| $R::read().as_u64());
                if rv != Ok(w) {
                    t.bad(stringify!($R), "write-then-read-does-not-round-trip", &case, format!("{:x?}", rv));
                }
            }
        };
    }
    addr_msr!(FsBase, MSR_FS_BASE);
    addr_msr!(GsBase, MSR_GS_BASE);
    addr_msr!(KernelGsBase, MSR_KERNEL_GS_BASE);
    addr_msr!(LStar, MSR_LSTAR);
}

fn star_etc(t: &mut T, a: &Args) {
    // STAR: SYSRET CS/SS base in bits 48-63, SYSCALL CS/SS base in bits 32-47 (APM vol.2 6.1.1)
    for v in thin(a, contents()) {
        cpu().msr_set(MSR_STAR, v);
        let (rv, ev) = stepped(|| Star::read_raw());
        let case = format!("Star read_raw {:#x}", v);
        let (sr, sc) = ((v >> 48) as u16, (v >> 32) as u16);
        if t.expect("Star", &case, &ev, &[Ev::Rdmsr(MSR_STAR, v)]) && rv != Ok((sr, sc)) {
            t.bad("Star", "read_raw-wrong-fields", &case, format!("{:x?}", rv));
        }
        if sr <= 0xffef && sc <= 0xfff7 {
            let (rv, _) = stepped(|| { let s = Star::read(); (s.0 .0, s.1 .0, s.2 .0, s.3 .0) });
            if rv != Ok((sr + 16, sr + 8, sc, sc + 8)) {
                t.bad("Star", "read-wrong-selectors", &case, format!("{:x?}", rv));
            }
        }
        let (_, ev) = stepped(|| unsafe { Star::write_raw(sc, sr) });
        t.expect("Star", &format!("Star write_raw {:#x} {:#x}", sc, sr), &ev, &[wr(MSR_STAR, (sc as u64) << 48 | (sr as u64) << 32)]);
    }
    // typed write: selector quadruples around the +-8/+-16 and RPL rules
    // incl. selectors with the table-indicator bit (bit 2) set
    let bases: Vec<u16> = vec![0x08, 0x10, 0x18, 0x20, 0x28, 0x30, 0xfff0, 0x1000, 0x24, 0x2c, 0xffe4, 0x0c];
    for &sysret_base in &bases {
        for &syscall in &bases {
            for d_cs in [0i32, 8, 16, 24] {
                for d_ss in [0i32, 8, 16] {
                    for rpl_ret in 0..4u16 {
                        for (d_ss2, rpl_call) in [(8i32, 0u16), (0, 0), (16, 0), (8, 1), (8, 3)] {
                            if !a.thorough() && (d_cs, d_ss) != (16, 8) && (d_ss2, rpl_call) != (8, 0) {
                                continue;
                            }
                            let cs_ret = (sysret_base as i32 + d_cs) as u16 | 3;
                            let ss_ret = ((sysret_base as i32 + d_ss) as u16 & !3) | rpl_ret;
                            let cs_call = syscall;
                            let ss_call = ((syscall as i32 + d_ss2) as u16 & !3) | rpl_call;
                            if cs_ret < 16 || ss_ret < 8 {
                                continue; // outside the domain: the SYSRET base would be negative
                            }
                            // reference (documented rules): cs_sysret-16 == ss_sysret-8, cs_syscall == ss_syscall-8, ss_sysret RPL 3, ss_syscall RPL 0
                            let ok = cs_ret as i32 - 16 == ss_ret as i32 - 8 && cs_call as i32 == ss_call as i32 - 8 && ss_ret & 3 == 3 && ss_call & 3 == 0;
                            cpu().msr_set(MSR_STAR, 0x1111_2222_3333_4444);
                            let (rv, ev) = stepped(|| Star::write(SegmentSelector(cs_ret), SegmentSelector(ss_ret), SegmentSelector(cs_call), SegmentSelector(ss_call)).is_ok());
                            let case = format!("Star write {:#x} {:#x} {:#x} {:#x}", cs_ret, ss_ret, cs_call, ss_call);
                            t.r.ev(true);
                            if ok {
                                let exp = ((ss_ret - 8) as u64) << 48 | (cs_call as u64) << 32;
                                if t.expect("Star", &case, &ev, &[wr(MSR_STAR, exp)]) {
                                    let (rv2, _) = stepped(|| { let s = Star::read(); (s.0 .0, s.1 .0, s.2 .0, s.3 .0) });
                                    if rv != Ok(true) || rv2 != Ok((cs_ret, ss_ret, cs_call, ss_call)) {
                                        t.bad("Star", "write-then-read-does-not-round-trip", &case, format!("{:x?}", rv2));
                                    }
                                }
                            } else if rv != Ok(false) || !ev.is_empty() {
                                t.bad("Star", "documented-invalid-selectors-not-rejected-or-written-anyway", &case, format!("{:?} {:x?}", rv, ev));
                            }
                        }
                    }
                }
            }
        }
    }
    // SFMASK
    let rall: u64 = RFLAGS.iter().fold(0, |x, y| x | y.1);
    let mut fs: Vec<u64> = vec![0, rall];
    for (_, b) in RFLAGS {
        fs.push(*b);
        fs.push(rall & !*b);
    }
    for &f in &fs {
        cpu().msr_set(MSR_SFMASK, f);
        let (rv, ev) = stepped(|| SFMask::read().bits());
        let case = format!("SFMask read {:#x}", f);
        if t.expect("SFMask", &case, &ev, &[Ev::Rdmsr(MSR_SFMASK, f)]) && rv != Ok(f) {
            t.bad("SFMask", "read-wrong", &case, format!("{:x?}", rv));
        }
        let (_, ev) = stepped(|| SFMask::write(RFlags::from_bits_truncate(rall & !f)));
        let case = format!("SFMask write {:#x}", rall & !f);
        t.expect("SFMask", &case, &ev, &[wr(MSR_SFMASK, rall & !f)]);
        let (rv, _) = stepped(|| SFMask::read().bits());
        if rv != Ok(rall & !f) {
            t.bad("SFMask", "write-then-read-does-not-round-trip", &case, format!("{:x?}", rv));
        }
        cpu().msr_set(MSR_SFMASK, f);
        let (_, ev) = stepped(|| SFMask::update(|x| x.toggle(RFlags::INTERRUPT_FLAG)));
        t.expect("SFMask", &format!("SFMask update {:#x}", f), &ev, &[Ev::Rdmsr(MSR_SFMASK, f), wr(MSR_SFMASK, f ^ 0x200)]);
    }
    // U_CET / S_CET
    let call: u64 = CET.iter().fold(0, |x, y| x | y.1);
    let mut cfs: Vec<u64> = vec![0, call];
    for (_, b) in CET {
        cfs.push(*b);
    }
    let pages: Vec<u64> = canon().into_iter().map(|x| x & !0xfff).collect::<std::collections::BTreeSet<_>>().into_iter().collect();
    macro_rules! cet {
        ($R:ident, $n:expr) => {
            for (i, &pg) in pages.iter().enumerate() {
                for &f in &cfs {
                    if !a.thorough() && i % 4 != 0 && f != call {
                        continue;
                    }
                    let page = Page::<Size4KiB>::from_start_address(VirtAddr::new(pg)).unwrap();
                    let (_, ev) = stepped(|| $R::write(CetFlags::from_bits_truncate(f), page));
                    let case = format!("{} write flags={:#x} page={:#x}", stringify!($R), f, pg);
                    t.expect(stringify!($R), &case, &ev, &[wr($n, f | pg)]);
                    let (rv, ev) = stepped(|| { let x = $R::read(); (x.0.bits(), x.1.start_address().as_u64()) });
                    if t.expect(stringify!($R), &case, &ev, &[Ev::Rdmsr($n, f | pg)]) && rv != Ok((f, pg)) {
                        t.bad(stringify!($R), "write-then-read-does-not-round-trip", &case, format!("{:x?}", rv));
                    }
                }
            }
            cpu().msr_set($n, 0x7000 | 0x1);
            let (_, ev) = stepped(|| $R::update(|f, p| { f.toggle(CetFlags::IBT_ENABLE); *p = Page::from_start_address(VirtAddr::new(0x9000)).unwrap(); }));
            t.expect(stringify!($R), &format!("{} update", stringify!($R)), &ev, &[Ev::Rdmsr($n, 0x7001), wr($n, 0x9000 | 0x5)]);
        };
    }
    cet!(UCet, MSR_U_CET);
    cet!(SCet, MSR_S_CET);
    // PAT: all types in each slot
    let types = [PatMemoryType::StrongUncacheable, PatMemoryType::WriteCombining, PatMemoryType::WriteThrough, PatMemoryType::WriteProtected, PatMemoryType::WriteBack, PatMemoryType::Uncacheable];
    for slot in 0..8usize {
        for (ti, ty) in types.iter().enumerate() {
            let mut tab = Pat::DEFAULT;
            tab[slot] = *ty;
            tab[(slot + 3) % 8] = types[(ti + 2) % 6];
            let mut raw = 0u64;
            for i in 0..8 {
                raw |= (tab[i].bits() as u64) << (8 * i);
            }
            let (_, ev) = stepped(|| unsafe { Pat::write(tab) });
            let case = format!("Pat write slot {} = {:?}", slot, ty);
            t.expect("Pat", &case, &ev, &[wr(MSR_PAT, raw)]);
            let (rv, ev) = stepped(|| Pat::read());
            if t.expect("Pat", &case, &ev, &[Ev::Rdmsr(MSR_PAT, raw)]) && rv != Ok(tab) {
                t.bad("Pat", "write-then-read-does-not-round-trip", &case, format!("{:?}", rv));
            }
        }
    }
    pat_images(t.r, "C16");
    // APIC base (preserving)
    let aall: u64 = APIC_BASE.iter().fold(0, |x, y| x | y.1);
    let aframes: Vec<u64> = vec![0xfee0_0000, 0x1000, 0, 0x000f_ffff_ffff_f000, 0x1234_5000];
    let fr_of = |x: u64| PhysFrame::<Size4KiB>::from_start_address(PhysAddr::new(x)).unwrap();
    for old in thin(a, contents()) {
        cpu().msr_set(MSR_APIC_BASE, old);
        let (rv, ev) = stepped(|| { let x = ApicBase::read(); let y = ApicBase::read_raw(); (x.0.start_address().as_u64(), x.1.bits(), y.0.start_address().as_u64(), y.1) });
        let case = format!("ApicBase read {:#x}", old);
        let fr = old & 0x000f_ffff_ffff_f000;
        if t.expect("ApicBase", &case, &ev, &[Ev::Rdmsr(MSR_APIC_BASE, old), Ev::Rdmsr(MSR_APIC_BASE, old)]) && rv != Ok((fr, old & aall, fr, old)) {
            t.bad("ApicBase", "typed-read-wrong", &case, format!("{:x?}", rv));
        }
        for &nf in &aframes {
            for f in [0u64, aall, 1 << 11, 1 << 8, 1 << 10] {
                if !a.thorough() && old.count_ones() > 1 && old.count_ones() < 63 && f != (1 << 11) {
                    continue;
                }
                cpu().msr_set(MSR_APIC_BASE, old);
                let (_, ev) = stepped(|| unsafe { ApicBase::write(fr_of(nf), ApicBaseFlags::from_bits_truncate(f)) });
                let case = format!("ApicBase write old={:#x} frame={:#x} flags={:#x}", old, nf, f);
                // reserved = everything that is neither a modelled flag nor the base-address field
                let reserved = old & !(aall | 0x000f_ffff_ffff_f000);
                t.expect("ApicBase", &case, &ev, &[Ev::Rdmsr(MSR_APIC_BASE, old), wr(MSR_APIC_BASE, reserved | f | nf)]);
                let (rv, _) = stepped(|| { let x = ApicBase::read(); (x.0.start_address().as_u64(), x.1.bits()) });
                if rv != Ok((nf, f)) {
                    t.bad("ApicBase", "write-then-read-does-not-round-trip", &case, format!("{:x?}", rv));
                }
            }
        }
        let (_, ev) = stepped(|| unsafe { ApicBase::write_raw(fr_of(0x5000), old & !0x000f_ffff_ffff_f000) });
        t.expect("ApicBase", &format!("ApicBase write_raw {:#x}", old), &ev, &[wr(MSR_APIC_BASE, 0x5000 | (old & !0x000f_ffff_ffff_f000))]);
        // the raw word may carry base-address bits too (read_raw returns the whole register image): whenever those agree with the
        // frame - in particular in the round trip read_raw -> write_raw - the register receives frame | word
        cpu().msr_set(MSR_APIC_BASE, old);
        let (_, ev) = stepped(|| unsafe { let (f, raw) = ApicBase::read_raw(); ApicBase::write_raw(f, raw) });
        t.expect("ApicBase", &format!("ApicBase read_raw-write_raw-round-trip {:#x}", old), &ev, &[Ev::Rdmsr(MSR_APIC_BASE, old), wr(MSR_APIC_BASE, old)]);
        for &nf in aframes.iter().chain([fr].iter()) {
            if old & 0x000f_ffff_ffff_f000 & !nf == 0 {
                let (_, ev) = stepped(|| unsafe { ApicBase::write_raw(fr_of(nf), old) });
                t.expect("ApicBase", &format!("ApicBase write_raw frame={:#x} word={:#x}", nf, old), &ev, &[wr(MSR_APIC_BASE, nf | old)]);
            }
        }
    }
}

fn segments(t: &mut T, a: &Args) {
    let sels: Vec<u16> = {
        let mut v = vec![0u16, 0x08, 0x10, 0x1b, 0x23, 0x2b, 0x33, 0xffff, 0xfff8, 0x7];
        for b in 0..16 {
            v.push(1 << b);
        }
        v
    };
    macro_rules! seg {
        ($S:ident, $n:expr) => {
            for &s in &sels {
                cpu().sel[$n] = s;
                let (rv, ev) = stepped(|| $S::get_reg().0);
                let case = format!("{} get_reg {:#x}", stringify!($S), s);
                if t.expect(stringify!($S), &case, &ev, &[Ev::MovFromSeg($n, s)]) && rv != Ok(s) {
                    t.bad(stringify!($S), "get_reg-wrong", &case, format!("{:x?}", rv));
                }
                if $n != 1 {
                    let (_, ev) = stepped(|| unsafe { $S::set_reg(SegmentSelector(!s)) });
                    let case = format!("{} set_reg {:#x}", stringify!($S), !s);
                    t.expect(stringify!($S), &case, &ev, &[Ev::MovToSeg($n, !s)]);
                    let (rv, _) = stepped(|| $S::get_reg().0);
                    if rv != Ok(!s) {
                        t.bad(stringify!($S), "set_reg-then-get_reg-does-not-round-trip", &case, format!("{:x?}", rv));
                    }
                }
            }
        };
    }
    seg!(ES, 0);
    seg!(CS, 1);
    seg!(SS, 2);
    seg!(DS, 3);
    seg!(FS, 4);
    seg!(GS, 5);
    // CS::set_reg: far return with the new selector; execution continues right after
    for &s in &sels {
        let (rv, ev) = stepped(|| { unsafe { CS::set_reg(SegmentSelector(s)) }; 0x77u64 });
        let case = format!("CS set_reg {:#x}", s);
        t.r.ev(true);
        let ok = ev.len() == 1 && matches!(ev[0], Ev::Retfq(_, cs) if cs == s as u64) && rv == Ok(0x77) && cpu().sel[1] == s;
        if !ok {
            t.bad("CS", "set_reg-does-not-load-the-selector-with-one-far-return", &case, format!("{:x?} {:x?}", rv, ev));
        }
    }
    // FS/GS base through FSGSBASE instructions
    for v in canon() {
        for (w, msr) in [(0u8, MSR_FS_BASE), (1u8, MSR_GS_BASE)] {
            cpu().msr_set(msr, v);
            let (rv, ev) = stepped(|| if w == 0 { FS::read_base().as_u64() } else { GS::read_base().as_u64() });
            let case = format!("{}::read_base {:#x}", if w == 0 { "FS" } else { "GS" }, v);
            if t.expect("FS/GS base", &case, &ev, &[Ev::RdBase(w, v)]) && rv != Ok(v) {
                t.bad("FS/GS base", "read_base-wrong", &case, format!("{:x?}", rv));
            }
            let nv = sext48(!v);
            let (_, ev) = stepped(|| unsafe { if w == 0 { FS::write_base(VirtAddr::new(nv)) } else { GS::write_base(VirtAddr::new(nv)) } });
            t.expect("FS/GS base", &format!("{}::write_base {:#x}", if w == 0 { "FS" } else { "GS" }, nv), &ev, &[Ev::WrBase(w, nv)]);
        }
    }
    // FS/GS base through the model-specific register named by Segment64::BASE (the documented way without FSGSBASE)
    for v in thin(a, canon()) {
        for (w, msr) in [(0u8, MSR_FS_BASE), (1u8, MSR_GS_BASE)] {
            cpu().msr_set(msr, v);
            let nm = if w == 0 { "FS" } else { "GS" };
            let (rv, ev) = stepped(|| unsafe { if w == 0 { <FS as Segment64>::BASE.read() } else { <GS as Segment64>::BASE.read() } });
            let case = format!("{}::BASE.read {:#x}", nm, v);
            if t.expect("FS/GS base", &case, &ev, &[Ev::Rdmsr(msr, v)]) && rv != Ok(v) {
                t.bad("FS/GS base", "Segment64::BASE-read-wrong", &case, format!("{:x?}", rv));
            }
            let nv = sext48(!v);
            let (_, ev) = stepped(|| unsafe { if w == 0 { let mut m = <FS as Segment64>::BASE; m.write(nv) } else { let mut m = <GS as Segment64>::BASE; m.write(nv) } });
            t.expect("FS/GS base", &format!("{}::BASE.write {:#x}", nm, nv), &ev, &[wr(msr, nv)]);
            // cross-object round trip: written through BASE, read back by the instruction wrapper
            let (rv, _) = stepped(|| if w == 0 { FS::read_base().as_u64() } else { GS::read_base().as_u64() });
            if rv != Ok(nv) {
                t.bad("FS/GS base", "write-through-Segment64::BASE-not-seen-by-read_base", &format!("{}::BASE.write {:#x}", nm, nv), format!("{:x?}", rv));
            }
        }
    }
    // swapgs
    for v in thin(a, canon()) {
        cpu().msr_set(MSR_GS_BASE, v);
        cpu().msr_set(MSR_KERNEL_GS_BASE, sext48(!v));
        let (_, ev) = stepped(|| unsafe { GS::swap() });
        t.expect("GS::swap", &format!("GS::swap {:#x}", v), &ev, &[Ev::Swapgs]);
    }
    // load_tss / lgdt / lidt / sgdt / sidt
    for &s in &sels {
        let (_, ev) = stepped(|| unsafe { load_tss(SegmentSelector(s)) });
        t.expect("load_tss", &format!("load_tss {:#x}", s), &ev, &[Ev::Ltr(s)]);
    }
    for (i, v) in canon().into_iter().enumerate() {
        let limit = (v as u16) ^ (i as u16);
        let p = DescriptorTablePointer { limit, base: VirtAddr::new(v) };
        let pa = &p as *const _ as u64;
        let (_, ev) = stepped(|| unsafe { lgdt(&p) });
        t.expect("lgdt", &format!("lgdt {:#x} {:#x}", limit, v), &ev, &[Ev::Lgdt(limit, v, pa)]);
        let (rv, ev) = stepped(|| { let x = sgdt(); (x.limit, x.base.as_u64()) });
        t.r.ev(true);
        if ev.len() != 1 || !matches!(ev[0], Ev::Sgdt(_)) || rv != Ok((limit, v)) {
            t.bad("sgdt", "does-not-return-the-loaded-table-register", &format!("sgdt {:#x} {:#x}", limit, v), format!("{:x?} {:x?}", rv, ev));
        }
        let (_, ev) = stepped(|| unsafe { lidt(&p) });
        t.expect("lidt", &format!("lidt {:#x} {:#x}", limit, v), &ev, &[Ev::Lidt(limit, v, pa)]);
        let (rv, ev) = stepped(|| { let x = sidt(); (x.limit, x.base.as_u64()) });
        t.r.ev(true);
        if ev.len() != 1 || !matches!(ev[0], Ev::Sidt(_)) || rv != Ok((limit, v)) {
            t.bad("sidt", "does-not-return-the-loaded-table-register", &format!("sidt {:#x} {:#x}", limit, v), format!("{:x?} {:x?}", rv, ev));
        }
    }
}

fn flags_mxcsr(t: &mut T, a: &Args) {
    let rall: u64 = RFLAGS.iter().fold(0, |x, y| x | y.1);
    // only the non-arithmetic bits live in the simulated RFLAGS; arithmetic flags come from the real CPU
    let sys_mask: u64 = !(0x8d5 | 0x400);
    for old in thin(a, contents()) {
        let old_sys = old & sys_mask & !0x100; // keep TF out: the stepper owns it
        cpu().rflags_sys = old_sys;
        let (rv, ev) = stepped(|| (rflags::read_raw(), rflags::read().bits()));
        let case = format!("rflags read sys={:#x}", old_sys);
        t.r.ev(true);
        match rv {
            Ok((raw, typed)) => {
                if ev.len() != 2 || !ev.iter().all(|e| matches!(e, Ev::Pushf(_))) || raw & sys_mask != old_sys | 2 || typed != raw & rall {
                    t.bad("rflags", "read-wrong", &case, format!("raw {:#x} typed {:#x} {:x?}", raw, typed, ev));
                }
            }
            _ => t.bad("rflags", "read-panics", &case, String::new()),
        }
        // write preserves reserved bits: (old & !ALL) | flags
        for f in [0x200u64, 0, 0x40200, rall & sys_mask & !0x100] {
            cpu().rflags_sys = old_sys;
            let (_, ev) = stepped(|| unsafe { rflags::write(RFlags::from_bits_truncate(f)) });
            let case = format!("rflags write sys={:#x} flags={:#x}", old_sys, f);
            t.r.ev(true);
            let pops: Vec<u64> = ev.iter().filter_map(|e| if let Ev::Popf(v) = e { Some(*v) } else { None }).collect();
            let pushes: Vec<u64> = ev.iter().filter_map(|e| if let Ev::Pushf(v) = e { Some(*v) } else { None }).collect();
            if pops.len() != 1 || pushes.len() != 1 || pops[0] != (pushes[0] & !rall) | f {
                t.bad("rflags", "write-does-not-preserve-reserved-bits-or-wrong-value", &case, format!("{:x?}", ev));
            }
        }
        let (_, ev) = stepped(|| unsafe { rflags::write_raw(old_sys | 0x2) });
        t.r.ev(true);
        if ev != [Ev::Popf(old_sys | 0x2)] {
            t.bad("rflags", "write_raw-wrong", &format!("rflags write_raw {:#x}", old_sys | 2), format!("{:x?}", ev));
        }
    }
    cpu().rflags_sys = 0x202;
    // mxcsr
    let mall: u32 = MXCSR.iter().fold(0, |x, y| x | y.1 as u32);
    let mut vals: Vec<u32> = vec![0, mall, 0x1f80, 0xffff_ffff, 0xffff_0000];
    for b in 0..32 {
        vals.push(1 << b);
    }
    for &v in &vals {
        cpu().mxcsr = v;
        let (rv, ev) = stepped(|| mxcsr::read().bits());
        let case = format!("mxcsr read {:#x}", v);
        if t.expect("mxcsr", &case, &ev, &[Ev::Stmxcsr(v)]) && rv != Ok(v & mall) {
            t.bad("mxcsr", "typed-read-is-not-the-modelled-bits", &case, format!("{:x?}", rv));
        }
        let f = v & mall;
        let (_, ev) = stepped(|| mxcsr::write(MxCsr::from_bits_truncate(f)));
        t.expect("mxcsr", &format!("mxcsr write {:#x}", f), &ev, &[Ev::Ldmxcsr(f)]);
        cpu().mxcsr = f;
        let (_, ev) = stepped(|| mxcsr::update(|m| m.toggle(MxCsr::FLUSH_TO_ZERO)));
        t.expect("mxcsr", &format!("mxcsr update {:#x}", f), &ev, &[Ev::Stmxcsr(f), Ev::Ldmxcsr(f ^ 0x8000)]);
    }
    cpu().mxcsr = 0x1f80;
}


// ---------------------------------------------------------------------------------------------- sequences and call sites
/// In one function, without any call in between: read, write, read, write, read. Every read returns what the preceding write
/// stored (a register read is not a constant of the function), and the register ends with the last value.
macro_rules! rwr {
    ($t:expr, $name:literal, $set:expr, $rd:expr, $wr:expr, $v:expr) => {{
        let v: [u64; 3] = $v;
        $set(v[0]);
        let (rv, _) = stepped(|| {
            let a = $rd();
            $wr(v[1]);
            let b = $rd();
            $wr(v[2]);
            let c = $rd();
            (a, b, c)
        });
        $t.r.ev(true);
        if rv != Ok((v[0], v[1], v[2])) {
            $t.bad($name, "read-after-write-in-the-same-function-returns-a-stale-value", &format!("{} read;write({:#x});read;write({:#x});read from {:#x}", $name, v[1], v[2], v[0]), format!("{:x?}", rv));
        }
        // write(A); the register changes by another route (another wrapper, another CPU, the hardware); write(A) again:
        // the second write is performed — a wrapper keeps no memory of what it wrote last
        let _ = stepped(|| $wr(v[1]));
        $set(v[2]);
        let (_, ev) = stepped(|| $wr(v[1]));
        let (rv, _) = stepped(|| $rd());
        $t.r.ev(true);
        if ev.is_empty() || rv != Ok(v[1]) {
            $t.bad($name, "identical-write-repeated-after-the-register-changed-elsewhere-is-not-performed", &format!("{} write({:#x}); register := {:#x} elsewhere; write({:#x})", $name, v[1], v[2], v[1]), format!("events {:x?}, register reads {:x?}", ev, rv));
        }
    }};
}

/// call sites that go on using the value they passed to the wrapper: the wrapper's asm must leave its inputs (and every
/// other live value) alone. Arguments arrive in rdi, rsi, rdx; each site returns them combined.
macro_rules! keep_site {
    ($name:ident, |$x:ident| $body:expr) => {
        #[inline(never)]
        fn $name($x: u64, y: u64, z: u64) -> u64 {
            #[allow(unused_unsafe)]
            unsafe {
                $body
            };
            $x ^ y.rotate_left(17) ^ z.rotate_left(39)
        }
    };
}
keep_site!(ks_cs, |x| CS::set_reg(SegmentSelector(x as u16)));
keep_site!(ks_ss, |x| SS::set_reg(SegmentSelector(x as u16)));
keep_site!(ks_ds, |x| DS::set_reg(SegmentSelector(x as u16)));
keep_site!(ks_es, |x| ES::set_reg(SegmentSelector(x as u16)));
keep_site!(ks_fs, |x| FS::set_reg(SegmentSelector(x as u16)));
keep_site!(ks_gs, |x| GS::set_reg(SegmentSelector(x as u16)));
keep_site!(ks_tss, |x| load_tss(SegmentSelector(x as u16)));
keep_site!(ks_fsb, |x| FS::write_base(VirtAddr::new_truncate(x)));
keep_site!(ks_gsb, |x| GS::write_base(VirtAddr::new_truncate(x)));
keep_site!(ks_cr0, |x| Cr0::write_raw(x));
keep_site!(ks_cr4, |x| Cr4::write_raw(x));
keep_site!(ks_dr7, |x| Dr7::write_raw(x));
keep_site!(ks_dr0, |x| Dr0::write(x));
keep_site!(ks_xcr0, |x| XCr0::write_raw(x));
keep_site!(ks_efer, |x| Efer::write_raw(x));
keep_site!(ks_lstar, |x| LStar::write(VirtAddr::new_truncate(x)));
keep_site!(ks_kgs, |x| KernelGsBase::write(VirtAddr::new_truncate(x)));
keep_site!(ks_msr, |x| Msr::new(0xc000_0103).write(x));
keep_site!(ks_mxcsr, |x| mxcsr::write(MxCsr::from_bits_truncate(x as u32 & 0xffbf)));
keep_site!(ks_flush, |x| x86_64::instructions::tlb::flush(VirtAddr::new_truncate(x)));
keep_site!(ks_rd_cr3, |x| { let _ = std::hint::black_box(Cr3::read_raw()); let _ = x; });
keep_site!(ks_rd_msr, |x| { let _ = std::hint::black_box(Msr::new(0xc000_0103).read()); let _ = x; });
keep_site!(ks_rd_fsb, |x| { let _ = std::hint::black_box(FS::read_base()); let _ = x; });
keep_site!(ks_rd_cs, |x| { let _ = std::hint::black_box(CS::get_reg()); let _ = x; });
keep_site!(ks_rd_xcr0, |x| { let _ = std::hint::black_box(XCr0::read_raw()); let _ = x; });

// Call sites that keep a condition alive in the arithmetic flags across the wrapper: a counter is decremented (setting ZF), the
// wrapper runs, and only then the code branches on "counter reached zero". The wrappers promise not to touch the arithmetic flags
// (the compiler relies on it in optimised builds); the branch taken must be the one the counter dictates whatever the register holds.
macro_rules! flag_site {
    ($name:ident, |$x:ident| $body:expr) => {
        #[inline(never)]
        fn $name(counter: &mut u64, $x: u64) -> (u64, u64) {
            *counter -= 1;
            let zero = *counter == 0;
            #[allow(unused_unsafe)]
            let v: u64 = unsafe { $body };
            // the branch needs the wrapper's result, so it cannot move in front of the wrapper; its bodies have side effects,
            // so it cannot become a conditional move
            let mut out = [0u64; 2];
            if zero {
                unsafe { core::ptr::write_volatile(&mut out[0], v) };
                flag_site_expired(&mut out);
            } else {
                unsafe { core::ptr::write_volatile(&mut out[0], v) };
                unsafe { core::ptr::write_volatile(&mut out[1], 0x5555) };
            }
            (unsafe { core::ptr::read_volatile(&out[0]) }, unsafe { core::ptr::read_volatile(&out[1]) })
        }
    };
}
#[inline(never)]
fn flag_site_expired(out: &mut [u64; 2]) {
    unsafe { core::ptr::write_volatile(&mut out[1], 0xaaaa) };
}
flag_site!(fl_xcr0, |_x| XCr0::read_raw());
flag_site!(fl_cr0, |_x| Cr0::read_raw());
flag_site!(fl_cr2, |_x| Cr2::read_raw());
flag_site!(fl_cr3, |_x| Cr3::read_raw().0.start_address().as_u64());
flag_site!(fl_cr4, |_x| Cr4::read_raw());
flag_site!(fl_dr6, |_x| Dr6::read_raw());
flag_site!(fl_dr7, |_x| Dr7::read_raw());
flag_site!(fl_dr1, |_x| Dr1::read());
flag_site!(fl_efer, |_x| Efer::read_raw());
flag_site!(fl_msr, |_x| Msr::new(0xc000_0103).read());
flag_site!(fl_fsb, |_x| FS::read_base().as_u64());
flag_site!(fl_gsb, |_x| GS::read_base().as_u64());
flag_site!(fl_cs, |_x| CS::get_reg().0 as u64);
flag_site!(fl_ss, |_x| SS::get_reg().0 as u64);
flag_site!(fl_rflags, |_x| rflags::read_raw() & 0);
flag_site!(fl_mxcsr, |_x| mxcsr::read().bits() as u64);
flag_site!(fl_w_cr0, |x| { Cr0::write_raw(x); x });
flag_site!(fl_w_cr4, |x| { Cr4::write_raw(x); x });
flag_site!(fl_w_dr7, |x| { Dr7::write_raw(x); x });
flag_site!(fl_w_dr2, |x| { Dr2::write(x); x });
flag_site!(fl_w_xcr0, |x| { XCr0::write_raw(x); x });
flag_site!(fl_w_efer, |x| { Efer::write_raw(x); x });
flag_site!(fl_w_msr, |x| { Msr::new(0xc000_0103).write(x); x });
flag_site!(fl_w_fsb, |x| { FS::write_base(VirtAddr::new_truncate(x)); x });
flag_site!(fl_w_ds, |x| { DS::set_reg(SegmentSelector(x as u16)); x });
flag_site!(fl_w_gs, |x| { GS::set_reg(SegmentSelector(x as u16)); x });
flag_site!(fl_w_mxcsr, |x| { mxcsr::write(MxCsr::from_bits_truncate(x as u32 & 0xffbf)); x });
flag_site!(fl_swapgs, |x| { GS::swap(); x });

fn flag_sites(t: &mut T) {
    let sites: &[(&str, fn(&mut u64, u64) -> (u64, u64))] = &[
        ("XCr0::read_raw", fl_xcr0), ("Cr0::read_raw", fl_cr0), ("Cr2::read_raw", fl_cr2), ("Cr3::read_raw", fl_cr3), ("Cr4::read_raw", fl_cr4), ("Dr6::read_raw", fl_dr6), ("Dr7::read_raw", fl_dr7),
        ("Dr1::read", fl_dr1), ("Efer::read_raw", fl_efer), ("Msr::read", fl_msr), ("FS::read_base", fl_fsb), ("GS::read_base", fl_gsb), ("CS::get_reg", fl_cs), ("SS::get_reg", fl_ss),
        ("rflags::read_raw", fl_rflags), ("mxcsr::read", fl_mxcsr), ("Cr0::write_raw", fl_w_cr0), ("Cr4::write_raw", fl_w_cr4), ("Dr7::write_raw", fl_w_dr7), ("Dr2::write", fl_w_dr2),
        ("XCr0::write_raw", fl_w_xcr0), ("Efer::write_raw", fl_w_efer), ("Msr::write", fl_w_msr), ("FS::write_base", fl_w_fsb), ("DS::set_reg", fl_w_ds), ("GS::set_reg", fl_w_gs),
        ("mxcsr::write", fl_w_mxcsr), ("GS::swap", fl_swapgs),
    ];
    for &(name, f) in sites {
        // register images: all-zero and non-zero (whatever a stray flag-writing instruction would compute from them)
        for image in [0u64, 0x33, u64::MAX & 0x0000_7fff_ffff_f000] {
            for start in [1u64, 2, 3] {
                let c = cpu();
                c.cr = [image; 16];
                c.dr = [image; 16];
                c.xcr0 = image | 1;
                c.mxcsr = (image as u32) & 0xffbf;
                c.msr_set(MSR_EFER, image);
                c.msr_set(0xc000_0103, image);
                c.msr_set(MSR_FS_BASE, image);
                c.msr_set(MSR_GS_BASE, image);
                c.sel = [image as u16; 6];
                use std::hint::black_box as bb;
                let mut counter = bb(start);
                let (rv, _) = stepped(|| f(&mut counter, bb(image)));
                t.r.ev(true);
                let want = if start == 1 { 0xaaaa } else { 0x5555 };
                if rv.map(|x| x.1) != Ok(want) || counter != start - 1 {
                    t.bad(name, "condition-computed-before-the-wrapper-is-wrong-after-it-(arithmetic-flags-not-preserved)", &format!("{} site(flags-live, counter {}, image {:#x})", name, start, image), format!("{:x?} expected branch {:#x}", rv, want));
                }
            }
        }
    }
}

fn seq_and_sites(t: &mut T, _a: &Args) {
    flag_sites(t);
    let vs: [[u64; 3]; 3] = [[0x8005_0033, 0x11, 0x8000_0000_0005_0033], [0, u64::MAX, 0x5a5a_5a5a_a5a5_a5a5], [0x0123_4567_89ab_cdef, 0xfedc_ba98_7654_3210, 1]];
    for v in vs {
        rwr!(t, "Cr0", |x| cpu().cr[0] = x, || Cr0::read_raw(), |x| unsafe { Cr0::write_raw(x) }, v);
        rwr!(t, "Cr4", |x| cpu().cr[4] = x, || Cr4::read_raw(), |x| unsafe { Cr4::write_raw(x) }, v);
        rwr!(t, "Dr7", |x| cpu().dr[7] = x, || Dr7::read_raw(), |x| Dr7::write_raw(x), v);
        rwr!(t, "Dr0", |x| cpu().dr[0] = x, || Dr0::read(), |x| Dr0::write(x), v);
        rwr!(t, "Dr3", |x| cpu().dr[3] = x, || Dr3::read(), |x| Dr3::write(x), v);
        rwr!(t, "Efer", |x| cpu().msr_set(MSR_EFER, x), || Efer::read_raw(), |x| unsafe { Efer::write_raw(x) }, v);
        rwr!(t, "XCr0", |x| cpu().xcr0 = x, || XCr0::read_raw(), |x| unsafe { XCr0::write_raw(x) }, v);
        rwr!(t, "Msr", |x| cpu().msr_set(0xc000_0103, x), || unsafe { Msr::new(0xc000_0103).read() }, |x| unsafe { Msr::new(0xc000_0103).write(x) }, v);
        let c = [sext48(v[0]), sext48(v[1]), sext48(v[2])];
        rwr!(t, "FsBase", |x| cpu().msr_set(MSR_FS_BASE, x), || FsBase::read().as_u64(), |x| FsBase::write(VirtAddr::new(x)), c);
        rwr!(t, "GsBase", |x| cpu().msr_set(MSR_GS_BASE, x), || GsBase::read().as_u64(), |x| GsBase::write(VirtAddr::new(x)), c);
        rwr!(t, "KernelGsBase", |x| cpu().msr_set(MSR_KERNEL_GS_BASE, x), || KernelGsBase::read().as_u64(), |x| KernelGsBase::write(VirtAddr::new(x)), c);
        rwr!(t, "LStar", |x| cpu().msr_set(MSR_LSTAR, x), || LStar::read().as_u64(), |x| LStar::write(VirtAddr::new(x)), c);
        rwr!(t, "FS::base", |x| cpu().msr_set(MSR_FS_BASE, x), || FS::read_base().as_u64(), |x| unsafe { FS::write_base(VirtAddr::new(x)) }, c);
        rwr!(t, "GS::base", |x| cpu().msr_set(MSR_GS_BASE, x), || GS::read_base().as_u64(), |x| unsafe { GS::write_base(VirtAddr::new(x)) }, c);
        let f = [v[0] & 0x000f_ffff_ffff_f000, v[1] & 0x000f_ffff_ffff_f000, v[2] & 0x000f_ffff_ffff_f000 | 0x3000];
        rwr!(t, "Cr3", |x| cpu().cr[3] = x, || Cr3::read().0.start_address().as_u64(), |x| unsafe { Cr3::write(PhysFrame::containing_address(PhysAddr::new(x)), Cr3Flags::empty()) }, f);
        let s16 = [v[0] & 0xffff, v[1] & 0xfffb, v[2] & 0xffff | 8];
        rwr!(t, "DS", |x| cpu().sel[3] = x as u16, || DS::get_reg().0 as u64, |x| unsafe { DS::set_reg(SegmentSelector(x as u16)) }, s16);
        rwr!(t, "ES", |x| cpu().sel[0] = x as u16, || ES::get_reg().0 as u64, |x| unsafe { ES::set_reg(SegmentSelector(x as u16)) }, s16);
        rwr!(t, "SS", |x| cpu().sel[2] = x as u16, || SS::get_reg().0 as u64, |x| unsafe { SS::set_reg(SegmentSelector(x as u16)) }, s16);
        rwr!(t, "FS", |x| cpu().sel[4] = x as u16, || FS::get_reg().0 as u64, |x| unsafe { FS::set_reg(SegmentSelector(x as u16)) }, s16);
        rwr!(t, "GS", |x| cpu().sel[5] = x as u16, || GS::get_reg().0 as u64, |x| unsafe { GS::set_reg(SegmentSelector(x as u16)) }, s16);
        rwr!(t, "CS", |x| cpu().sel[1] = x as u16, || CS::get_reg().0 as u64, |x| unsafe { CS::set_reg(SegmentSelector(x as u16)) }, s16);
        let m = [0x1f80u64, 0x9fc0 & 0xffbf, 0x0040 | 0x1f80];
        rwr!(t, "mxcsr", |x| cpu().mxcsr = x as u32, || mxcsr::read().bits() as u64, |x| mxcsr::write(MxCsr::from_bits_truncate(x as u32)), m);
    }
    // update with a closure that changes nothing is still read-modify-write: the same instructions with the same operands as
    // read() followed by write() of what was read, and the same register content afterwards (differential, per prior content)
    macro_rules! upd_id {
        ($name:literal, $set:expr, $get:expr, $upd:expr, $rmw:expr, $vals:expr) => {{
            for v in $vals {
                $set(v);
                let (_, e1) = stepped(|| $upd);
                let a = $get();
                $set(v);
                let (_, e2) = stepped(|| $rmw);
                let b = $get();
                t.r.ev(true);
                let norm = |v: &[Ev]| -> Vec<Ev> { v.iter().map(|e| if let Ev::Wrmsr(n, val, _, _) = e { Ev::Wrmsr(*n, *val, 0, 0) } else { *e }).collect() };
                if norm(&e1) != norm(&e2) || a != b {
                    t.bad($name, "update-with-an-identity-closure-differs-from-read-then-write", &format!("{} update(identity) from {:#x}", $name, v), format!("{:x?} -> {:#x} vs {:x?} -> {:#x}", e1, a, e2, b));
                }
            }
        }};
    }
    let pri = [0u64, 0x5000, 0x57e5, 0x0000_000f_ffff_f018, u64::MAX & 0x000f_ffff_ffff_ffff, 0x8005_0033];
    upd_id!("Cr3::update", |x| cpu().cr[3] = x, || cpu().cr[3], unsafe { Cr3::update(|_, _| {}) }, unsafe { let (f, fl) = Cr3::read(); Cr3::write(f, fl) }, pri);
    upd_id!("Cr3::update_pcid", |x| cpu().cr[3] = x, || cpu().cr[3], unsafe { Cr3::update_pcid(|_, _| {}) }, unsafe { let (f, p) = Cr3::read_pcid(); Cr3::write_pcid(f, p) }, pri);
    upd_id!("Cr3::update_pcid_no_flush", |x| cpu().cr[3] = x, || cpu().cr[3], unsafe { Cr3::update_pcid_no_flush(|_, _| {}) }, unsafe { let (f, p) = Cr3::read_pcid(); Cr3::write_pcid_no_flush(f, p) }, pri);
    upd_id!("Cr0::update", |x| cpu().cr[0] = x, || cpu().cr[0], unsafe { Cr0::update(|_| {}) }, unsafe { let f = Cr0::read(); Cr0::write(f) }, pri);
    upd_id!("Cr4::update", |x| cpu().cr[4] = x, || cpu().cr[4], unsafe { Cr4::update(|_| {}) }, unsafe { let f = Cr4::read(); Cr4::write(f) }, pri);
    upd_id!("Efer::update", |x| cpu().msr_set(MSR_EFER, x), || cpu().msr_get(MSR_EFER), unsafe { Efer::update(|_| {}) }, unsafe { let f = Efer::read(); Efer::write(f) }, pri);
    upd_id!("Dr7::update", |x| cpu().dr[7] = x, || cpu().dr[7], Dr7::update(|_| {}), { let f = Dr7::read(); Dr7::write(f) }, pri);
    upd_id!("SFMask::update", |x| cpu().msr_set(MSR_SFMASK, x), || cpu().msr_get(MSR_SFMASK), SFMask::update(|_| {}), { let f = SFMask::read(); SFMask::write(f) }, [0u64, 0x200, 0x4_7fd5]);
    upd_id!("mxcsr::update", |x| cpu().mxcsr = x as u32, || cpu().mxcsr as u64, mxcsr::update(|_| {}), { let f = mxcsr::read(); mxcsr::write(f) }, [0x1f80u64, 0x9fc0 & 0xffbf, 0]);
    // instruction audit of wrappers that are a single instruction: tiny functions single-stepped, every instruction classified
    {
        use crate::audit::audit_tiny;
        macro_rules! tiny {
            ($name:literal, $n:expr, |$x:ident| $body:expr) => {{
                #[inline(never)]
                fn f($x: u64) -> u64 {
                    #[allow(unused_unsafe)]
                    unsafe { $body }
                }
                audit_tiny(t.r, "C16", $name, f as usize as u64, $n, || { std::hint::black_box(f(std::hint::black_box(0x28))); });
            }};
        }
        tiny!("Cr0::read_raw", 1, |_x| Cr0::read_raw());
        tiny!("Cr2::read_raw", 1, |_x| Cr2::read_raw());
        tiny!("Cr4::read_raw", 1, |_x| Cr4::read_raw());
        tiny!("Cr0::write_raw", 1, |x| { Cr0::write_raw(x); x });
        tiny!("Cr4::write_raw", 1, |x| { Cr4::write_raw(x); x });
        tiny!("Dr7::read_raw", 1, |_x| Dr7::read_raw());
        tiny!("Dr7::write_raw", 1, |x| { Dr7::write_raw(x); x });
        tiny!("Dr0::read", 1, |_x| Dr0::read());
        tiny!("Dr3::write", 1, |x| { Dr3::write(x); x });
        tiny!("CS::get_reg", 1, |_x| CS::get_reg().0 as u64);
        tiny!("SS::get_reg", 1, |_x| SS::get_reg().0 as u64);
        tiny!("DS::set_reg", 1, |x| { DS::set_reg(SegmentSelector(x as u16)); x });
        tiny!("ES::set_reg", 1, |x| { ES::set_reg(SegmentSelector(x as u16)); x });
        tiny!("FS::set_reg", 1, |x| { FS::set_reg(SegmentSelector(x as u16)); x });
        tiny!("GS::set_reg", 1, |x| { GS::set_reg(SegmentSelector(x as u16)); x });
        tiny!("SS::set_reg", 1, |x| { SS::set_reg(SegmentSelector(x as u16)); x });
        tiny!("load_tss", 1, |x| { load_tss(SegmentSelector(x as u16)); x });
        tiny!("FS::read_base", 1, |_x| FS::read_base().as_u64());
        tiny!("GS::read_base", 1, |_x| GS::read_base().as_u64());
        tiny!("GS::swap", 1, |x| { GS::swap(); x });
        tiny!("tlb::flush", 1, |x| { x86_64::instructions::tlb::flush(VirtAddr::new_unsafe(x)); x });
    }
    let sites: &[(&str, fn(u64, u64, u64) -> u64)] = &[
        ("CS::set_reg", ks_cs), ("SS::set_reg", ks_ss), ("DS::set_reg", ks_ds), ("ES::set_reg", ks_es), ("FS::set_reg", ks_fs), ("GS::set_reg", ks_gs), ("load_tss", ks_tss),
        ("FS::write_base", ks_fsb), ("GS::write_base", ks_gsb), ("Cr0::write_raw", ks_cr0), ("Cr4::write_raw", ks_cr4), ("Dr7::write_raw", ks_dr7), ("Dr0::write", ks_dr0),
        ("XCr0::write_raw", ks_xcr0), ("Efer::write_raw", ks_efer), ("LStar::write", ks_lstar), ("KernelGsBase::write", ks_kgs), ("Msr::write", ks_msr), ("mxcsr::write", ks_mxcsr),
        ("tlb::flush", ks_flush), ("Cr3::read_raw", ks_rd_cr3), ("Msr::read", ks_rd_msr), ("FS::read_base", ks_rd_fsb), ("CS::get_reg", ks_rd_cs), ("XCr0::read_raw", ks_rd_xcr0),
    ];
    for &(name, f) in sites {
        for (x, y, z) in [(0x33u64, 0x1111_2222_3333_4444u64, 0x5555_6666_7777_8888u64), (0x0000_7fff_1234_5008, u64::MAX, 0), (0x5c1f, 0x9e37_79b9_7f4a_7c15, 0xd1b5_4a32_d192_ed03)] {
            use std::hint::black_box as bb;
            let (rv, _) = stepped(|| f(bb(x), bb(y), bb(z)));
            t.r.ev(true);
            let exp = x ^ y.rotate_left(17) ^ z.rotate_left(39);
            if rv != Ok(exp) {
                t.bad(name, "call-site-value-changed-across-the-wrapper-call", &format!("{} site({:#x}, {:#x}, {:#x})", name, x, y, z), format!("{:x?} expected {:#x}", rv, exp));
            }
        }
    }
}

pub fn run(a: &Args) {
    crate::simcpu::init();
    let mut r = Rep::new("C16", "wrappers-step-mode");
    {
        let mut t = T { r: &mut r };
        // shard by wrapper family
        let fams: [(&str, fn(&mut T, &Args)); 7] = [("control", control_regs), ("debug", debug_regs), ("xcr+msr", xcr_and_msrs), ("star+cet+pat+apic", star_etc), ("segments+tables", segments), ("rflags+mxcsr", flags_mxcsr), ("sequences+call-sites", seq_and_sites)];
        let only = a.replay.as_deref();
        for (i, (n, f)) in fams.iter().enumerate() {
            if let Some(c) = only {
                // replay: re-run the family the recorded case belongs to
                let w = c.split_whitespace().nth(1).unwrap_or("");
                let fam_of = |w: &str| -> usize {
                    if w.starts_with("Cr") { 0 } else if w.starts_with("Dr") { 1 } else if w.starts_with("XCr0") || w.starts_with("Msr") || w.starts_with("Efer") || w.contains("GsBase") || w.starts_with("FsBase") || w.starts_with("LStar") { 2 }
                    else if w.starts_with("Star") || w.starts_with("SFMask") || w.contains("Cet") || w.starts_with("Pat") || w.starts_with("ApicBase") { 3 }
                    else if w.starts_with("rflags") || w.starts_with("mxcsr") { 5 } else { 4 }
                };
                if fam_of(w) != i && !(i == 6 && (c.contains("read;write(") || c.contains(" site("))) { continue; }
            } else if i % a.nshards != a.shard {
                continue;
            }
            if catch(|| f(&mut t, a)).is_err() {
                t.r.viol(&format!("C16|{}|unexpected-panic-outside-a-wrapper-call", n), &format!("reg family {}", n), "a crate call that must not panic panicked");
            }
        }
    }
    r.states = r.evals;
    r.nontrivial = r.evals;
    r.sample("reg Cr4 write old=0xfffffffffe000000 flags=0x20000 -> [ReadCr(4), WriteCr(4, old&!ALL | flags)]".into());
    r.sample("reg ApicBase write old=0xfee00b00 frame=0x1000 flags=0x800".into());
    r.sample("reg Star write 0x23 0x1b 0x8 0x10".into());
    r.note(&format!("step mode: {} instructions single-stepped; every wrapper call executes its real inline asm, sensitive instructions are emulated on the simulated register file and logged", cpu().steps));
    r.emit();
}
