//! C13 (c): InterruptStackFrameValue::iretq and arbitrary-frame handler entry through E4 (emulated iretq).
#![allow(static_mut_refs)]
use crate::b64::*;
use crate::out::Rep;
use crate::simcpu::{cpu, run_stepped, Ev, CPU};
use crate::Args;
use x86_64::registers::rflags::RFlags;
use x86_64::registers::segmentation::SegmentSelector;
use x86_64::structures::idt::InterruptStackFrameValue;
use x86_64::VirtAddr;

extern "C" fn do_iretq(p: *const InterruptStackFrameValue) -> ! {
    unsafe { (*p).iretq() }
}

/// call a diverging function whose final iretq is emulated: execution continues here afterwards
unsafe fn call_until_iretq(f: extern "C" fn(*const InterruptStackFrameValue) -> !, arg: *const InterruptStackFrameValue) {
    core::arch::asm!(
        "push rbx",
        "push rbp",
        "lea rax, [rip + 2f]",
        "mov [{cont}], rax",
        "mov [{rsps}], rsp",
        "call {f}",
        "2:",
        "pop rbp",
        "pop rbx",
        cont = in(reg) core::ptr::addr_of_mut!(CPU.iret_cont),
        rsps = in(reg) core::ptr::addr_of_mut!(CPU.iret_rsp),
        f = in(reg) f,
        in("rdi") arg,
        out("rax") _, out("r12") _, out("r13") _, out("r14") _, out("r15") _,
        clobber_abi("C"),
    );
}

pub fn iretq_case(r: &mut Rep, rip: u64, cs: u16, fl: u64, rsp: u64, ss: u16) {
    let v = InterruptStackFrameValue::new(VirtAddr::new(rip), SegmentSelector(cs), RFlags::from_bits_retain(fl), VirtAddr::new(rsp), SegmentSelector(ss));
    cpu().clear_events();
    let res = run_stepped(|| unsafe { call_until_iretq(do_iretq, &v) });
    cpu().iret_cont = 0;
    let ev = cpu().evs();
    r.ev(true);
    let case = format!("iretq {:#x} {:#x} {:#x} {:#x} {:#x}", rip, cs, fl, rsp, ss);
    let ok = res.is_ok() && ev.len() == 1 && matches!(ev[0], Ev::Iretq(a, b, c, d, e) if a == rip && b & 0xffff == cs as u64 && c == fl && d == rsp && e & 0xffff == ss as u64);
    if !ok {
        r.viol("C13|InterruptStackFrameValue::iretq|does-not-transfer-to-exactly-the-frame", &case, &format!("{:x?}", ev));
    }
}

pub fn run(r: &mut Rep, a: &Args) {
    crate::simcpu::init();
    let addrs = canon_small();
    let flagsets = [0x2u64, 0x202, 0x246, 0x3202, 0x0004_0202, 0x0020_0ed7];
    let sels = [(0x08u16, 0x10u16), (0x33, 0x2b), (0x1b, 0x23), (0xfff8, 0)];
    let mut n = 0;
    for (i, &rip) in addrs.iter().enumerate() {
        for (j, &rsp) in addrs.iter().enumerate() {
            if !a.thorough() && (i + 2 * j) % 7 != 0 {
                continue;
            }
            let fl = flagsets[(i + j) % flagsets.len()];
            let (cs, ss) = sels[(i * 3 + j) % sels.len()];
            iretq_case(r, rip, cs, fl, rsp, ss);
            n += 1;
        }
    }
    r.note(&format!("iretq on {} frame values (canonical boundary RIP x RSP, 6 RFLAGS patterns, 4 selector pairs) with the final iretq emulated and its popped frame compared", n));
}
