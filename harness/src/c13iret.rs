//! C13 (c): InterruptStackFrameValue::iretq through E4 — filled in when SimCPU is available.
use crate::out::Rep;
use crate::Args;
pub fn run(_r: &mut Rep, _a: &Args) {}
