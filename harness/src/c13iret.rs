//! C13 (c): InterruptStackFrameValue::iretq and arbitrary-frame handler entry through E4 (emulated iretq).
#![allow(static_mut_refs)]
use crate::b64::*;
use crate::out::Rep;
use crate::simcpu::{cpu, run_stepped, Ev, CPU};
use crate::Args;
use x86_64::registers::rflags::RFlags;
use x86_64::registers::segmentation::SegmentSelector;
use x86_64::structures::idt::InterruptStackFrameValue;
use x86_64::VirtAddr;

extern "C" fn do_iretq(p: *const InterruptStackFrameValue) -> ! {
    unsafe { (*p).iretq() }
}

/// call a diverging function whose final iretq is emulated: execution continues here afterwards
unsafe fn call_until_iretq(f: extern "C" fn(*const InterruptStackFrameValue) -> !, arg: *const InterruptStackFrameValue) {
    core::arch::asm!(
        "push rbx",
        "push rbp",
        "lea rax, [rip + 2f]",
        "mov [{cont}], rax",
        "mov [{rsps}], rsp",
        "call {f}",
        "2:",
        "pop rbp",
        "pop rbx",
        cont = in(reg) core::ptr::addr_of_mut!(CPU.iret_cont),
        rsps = in(reg) core::ptr::addr_of_mut!(CPU.iret_rsp),
        f = in(reg) f,
        in("rdi") arg,
        out("rax") _, out("r12") _, out("r13") _, out("r14") _, out("r15") _,
        clobber_abi("C"),
    );
}

pub fn iretq_case(r: &mut Rep, rip: u64, cs: u16, fl: u64, rsp: u64, ss: u16) {
    let v = InterruptStackFrameValue::new(VirtAddr::new(rip), SegmentSelector(cs), RFlags::from_bits_retain(fl), VirtAddr::new(rsp), SegmentSelector(ss));
    cpu().clear_events();
    let res = run_stepped(|| unsafe { call_until_iretq(do_iretq, &v) });
    cpu().iret_cont = 0;
    let ev = cpu().evs();
    r.ev(true);
    let case = format!("iretq {:#x} {:#x} {:#x} {:#x} {:#x}", rip, cs, fl, rsp, ss);
    let ok = res.is_ok() && ev.len() == 1 && matches!(ev[0], Ev::Iretq(a, b, c, d, e) if a == rip && b & 0xffff == cs as u64 && c == fl && d == rsp && e & 0xffff == ss as u64);
    if !ok {
        r.viol("C13|InterruptStackFrameValue::iretq|does-not-transfer-to-exactly-the-frame", &case, &format!("{:x?}", ev));
    }
    // the same frame built through the wrapper type's constructor and used through Deref
    let w = x86_64::structures::idt::InterruptStackFrame::new(VirtAddr::new(rip), SegmentSelector(cs), RFlags::from_bits_retain(fl), VirtAddr::new(rsp), SegmentSelector(ss));
    let fields = (w.instruction_pointer.as_u64(), w.code_segment.0, w.cpu_flags.bits(), w.stack_pointer.as_u64(), w.stack_segment.0);
    if fields != (rip, cs, fl, rsp, ss) {
        r.viol("C13|InterruptStackFrame::new|fields-are-not-the-arguments", &case, &format!("{:x?}", fields));
    }
    cpu().clear_events();
    let vp: *const InterruptStackFrameValue = &*w;
    let res = run_stepped(|| unsafe { call_until_iretq(do_iretq, vp) });
    cpu().iret_cont = 0;
    let ev = cpu().evs();
    let ok = res.is_ok() && ev.len() == 1 && matches!(ev[0], Ev::Iretq(a, b, c, d, e) if a == rip && b & 0xffff == cs as u64 && c == fl && d == rsp && e & 0xffff == ss as u64);
    if !ok {
        r.viol("C13|InterruptStackFrame(new)::iretq|does-not-transfer-to-exactly-the-frame", &case, &format!("{:x?}", ev));
    }
}

// ------------------------------------------------------------------ handler entry with arbitrary frame contents (emulated iretq)

#[derive(Clone, Copy, Default)]
#[repr(C)]
struct Seen {
    calls: u64,
    index: u64,
    has_err: u64,
    err: u64,
    frame: [u64; 5],
}
static mut SEEN: Seen = Seen { calls: 0, index: 0, has_err: 0, err: 0, frame: [0; 5] };

fn gh(f: x86_64::structures::idt::InterruptStackFrame, i: u8, e: Option<u64>) {
    let (has, val) = match e { Some(v) => (1u64, v), None => (0, 0) };
    let fp = &f as *const _ as u64;
    unsafe {
        core::arch::asm!("mov r12, rsp", "and rsp, -16", "call {inner}", "mov rsp, r12", inner = sym gh_inner,
            in("rdi") fp, in("rsi") i as u64, in("rdx") has, in("rcx") val, out("r12") _, clobber_abi("C"));
    }
}
extern "C" fn gh_inner(fp: *const x86_64::structures::idt::InterruptStackFrame, i: u64, has: u64, val: u64) {
    unsafe {
        let f = &*fp;
        SEEN.calls += 1;
        SEEN.index = i;
        SEEN.has_err = has;
        SEEN.err = val;
        SEEN.frame = [f.instruction_pointer.as_u64(), f.code_segment.0 as u64, f.cpu_flags.bits(), f.stack_pointer.as_u64(), f.stack_segment.0 as u64];
    }
}

/// enter `handler` with an arbitrary hardware-format frame; the stub's final iretq is emulated and execution continues here
unsafe fn enter_with_frame(handler: u64, frame: &[u64; 5], err: Option<u64>) {
    let (has, ev) = (err.is_some() as u64, err.unwrap_or(0));
    core::arch::asm!(
        "push rbx",
        "push rbp",
        "lea rax, [rip + 3f]",
        "mov [{cont}], rax",
        "mov [{rsps}], rsp",
        "and rsp, -16",
        "push qword ptr [{fr} + 32]",   // SS
        "push qword ptr [{fr} + 24]",   // RSP
        "push qword ptr [{fr} + 16]",   // RFLAGS
        "push qword ptr [{fr} + 8]",    // CS
        "push qword ptr [{fr}]",        // RIP
        "test {has}, {has}",
        "jz 2f",
        "push {ev}",
        "2:",
        "jmp {h}",
        "3:",
        "pop rbp",
        "pop rbx",
        cont = in(reg) core::ptr::addr_of_mut!(CPU.iret_cont),
        rsps = in(reg) core::ptr::addr_of_mut!(CPU.iret_rsp),
        fr = in(reg) frame.as_ptr(),
        has = in(reg) has,
        ev = in(reg) ev,
        h = in(reg) handler,
        out("rax") _, out("r12") _, out("r13") _, out("r14") _, out("r15") _,
        clobber_abi("C"),
    );
}

#[allow(static_mut_refs)]
pub fn entry_frames(r: &mut Rep, a: &Args) {
    use crate::arch::{ERR_VECTORS, RESERVED_VECTORS};
    use crate::c12::{decode_gate, table_bytes};
    use x86_64::set_general_handler;
    use x86_64::structures::idt::InterruptDescriptorTable;
    let mut t = InterruptDescriptorTable::new();
    set_general_handler!(&mut t, gh);
    let b = table_bytes(&t);
    let frames: [[u64; 5]; 5] = [
        [0xffff_8000_0000_1000, 0x08, 0x2, 0xffff_ff7f_ffff_fff8, 0x10],
        [0x0000_7fff_ffff_fffe, 0x33, 0x246, 0x0000_7ffd_1234_5670, 0x2b],
        [0, 0xfff8, 0x0020_0ed7, 0, 0],
        [0xffff_ffff_ffff_ffff, 0x1b, 0x3202, 0xffff_ffff_ffff_fff0, 0x23],
        [0x0000_1234_5678_9abc, 0x10, 0x0004_0202, 0x0000_0000_0000_0008, 0x18],
    ];
    for v in 0..=255u8 {
        if v == 8 || v == 18 || RESERVED_VECTORS.contains(&v) {
            continue; // diverging vectors never execute iretq; reserved vectors have no stub
        }
        if v as usize % a.nshards != a.shard {
            continue;
        }
        let g = decode_gate(b[16 * v as usize..16 * v as usize + 16].try_into().unwrap());
        let has_err = ERR_VECTORS.contains(&v);
        for (fi, fr) in frames.iter().enumerate() {
            if !a.thorough() && (v as usize + fi) % 2 != 0 && v > 32 {
                continue;
            }
            let err = has_err.then_some(0x0123_4567_89ab_cdef ^ ((fi as u64) << 60));
            unsafe { SEEN = Seen::default() };
            cpu().clear_events();
            let res = run_stepped(|| unsafe { enter_with_frame(g.offset, fr, err) });
            cpu().iret_cont = 0;
            let ev = cpu().evs();
            r.ev(true);
            let case = format!("entryframe {} {}", v, fi);
            let seen = unsafe { SEEN };
            let iret_ok = ev.len() == 1 && matches!(ev[0], Ev::Iretq(a0, a1, a2, a3, a4) if [a0, a1, a2, a3, a4] == *fr);
            if res.is_err() || !iret_ok {
                r.viol("C13|entry(arbitrary frame)|stub-does-not-return-with-exactly-the-interrupted-frame", &case, &format!("{:x?} expected frame {:x?}", ev, fr));
            }
            if seen.calls != 1 || seen.index != v as u64 || seen.frame[0] != fr[0] || seen.frame[1] != fr[1] & 0xffff || seen.frame[2] != fr[2] || seen.frame[3] != fr[3] || seen.frame[4] != fr[4] & 0xffff
                || (seen.has_err == 1) != has_err || (has_err && Some(seen.err) != err)
            {
                r.viol("C13|entry(arbitrary frame)|handler-observation-wrong", &case, &format!("calls {} index {} frame {:x?} err {:x?}", seen.calls, seen.index, seen.frame, (seen.has_err, seen.err)));
            }
        }
    }
}

pub fn run(r: &mut Rep, a: &Args) {
    crate::simcpu::init();
    let addrs = canon_small();
    let flagsets = [0x2u64, 0x202, 0x246, 0x3202, 0x0004_0202, 0x0020_0ed7];
    let sels = [(0x08u16, 0x10u16), (0x33, 0x2b), (0x1b, 0x23), (0xfff8, 0)];
    let mut n = 0;
    for (i, &rip) in addrs.iter().enumerate() {
        for (j, &rsp) in addrs.iter().enumerate() {
            if !a.thorough() && (i + 2 * j) % 7 != 0 {
                continue;
            }
            let fl = flagsets[(i + j) % flagsets.len()];
            let (cs, ss) = sels[(i * 3 + j) % sels.len()];
            iretq_case(r, rip, cs, fl, rsp, ss);
            n += 1;
        }
    }
    // every RFLAGS image bit on its own and every all-but-one image, every 16-bit selector pattern with a single bit, irregular
    // images: the frame is transferred verbatim whatever it encodes
    let mut images: Vec<u64> = vec![0, u64::MAX, 0x2, 0x0000_0000_0024_4ed7, 0x9e37_79b9_7f4a_7c15, 0x0000_0000_0000_4202, 0x0000_0000_0001_7202];
    for b in 0..64 {
        images.push(1u64 << b);
        images.push(!(1u64 << b));
        images.push(0x202 | 1u64 << b);
    }
    for (k, &fl) in images.iter().enumerate() {
        let rip = addrs[k % addrs.len()];
        let rsp = addrs[(k * 7 + 3) % addrs.len()];
        let (cs, ss) = ((1u16 << (k % 16)) | 3, !(1u16 << ((k + 5) % 16)));
        iretq_case(r, rip, cs, fl, rsp, ss);
        n += 1;
    }
    r.note(&format!("iretq on {} frame values (canonical boundary RIP x RSP, 6 RFLAGS patterns, 4 selector pairs) with the final iretq emulated and its popped frame compared", n));
}
