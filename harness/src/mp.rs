//! Mapper search (C01, C02, C09, C10, C11a): explicit-state BFS over call histories on the real mappers.
#![allow(static_mut_refs)]
use crate::r1::*;
use crate::simphys::{self, sim, View, CUT_BASE, FSZ, L4_FRAME, NF, TRAP_BASE};
use x86_64::structures::paging::mapper::{
    CleanUp, FlagUpdateError, MapToError, MappedFrame, MappedPageTable, OffsetPageTable, PageTableFrameMapping, RecursivePageTable,
    TranslateError, TranslateResult, UnmapError,
};
use x86_64::structures::paging::page::PageRangeInclusive;
use x86_64::structures::paging::{
    FrameAllocator, FrameDeallocator, Mapper, Page, PageSize, PageTable, PageTableFlags, PageTableIndex, PhysFrame, Size1GiB, Size2MiB, Size4KiB, Translate,
};
use x86_64::{PhysAddr, VirtAddr};

// ------------------------------------------------------------------------------------------------ configuration

#[derive(Clone, Copy, Debug, PartialEq, Eq)]
pub enum Impl {
    Offset,
    Mapped,
    Recursive(u16),
}
#[derive(Clone, Copy, Debug, PartialEq, Eq)]
pub enum Policy {
    Ascending,
    Lifo,
    AlignedFirst,
}
#[derive(Clone, Debug)]
pub struct Config {
    pub imp: Impl,
    pub pbase: u64,
    pub policy: Policy,
    pub variant: char, // 'A' nesting, 'B' edges, 'C' index relations
    pub alias: bool,   // recursive mapper built with new_unchecked from an alias of the level-4 table (not its recursive address)
}
impl Config {
    pub fn name(&self) -> String {
        format!("{:?}{}/pbase={:#x}/{:?}/{}", self.imp, if self.alias { "-via-alias" } else { "" }, self.pbase, self.policy, self.variant)
    }
    pub fn parse(s: &str) -> Config {
        // e.g. offset:0x0:asc:A   mapped:0x40000000:lifo:A   rec126:0x0:aligned:B
        let t: Vec<&str> = s.split(':').collect();
        let alias = t[0].starts_with("reca");
        let imp = if t[0] == "offset" { Impl::Offset } else if t[0] == "mapped" { Impl::Mapped } else { Impl::Recursive(t[0][if alias { 4 } else { 3 }..].parse().unwrap()) };
        let pbase = u64::from_str_radix(t[1].trim_start_matches("0x"), 16).unwrap();
        let policy = match t[2] { "asc" => Policy::Ascending, "lifo" => Policy::Lifo, _ => Policy::AlignedFirst };
        Config { imp, pbase, policy, variant: t[3].chars().next().unwrap(), alias }
    }
    pub fn to_arg(&self) -> String {
        let i = match self.imp { Impl::Offset => "offset".to_string(), Impl::Mapped => "mapped".to_string(), Impl::Recursive(r) => format!("rec{}{}", if self.alias { "a" } else { "" }, r) };
        let p = match self.policy { Policy::Ascending => "asc", Policy::Lifo => "lifo", Policy::AlignedFirst => "aligned" };
        format!("{}:{:#x}:{}:{}", i, self.pbase, p, self.variant)
    }
}

// ------------------------------------------------------------------------------------------------ alphabet

pub struct Alpha {
    pub pages: Vec<(u8, u64)>,        // (size code, start)
    pub frames: [Vec<u64>; 3],        // per size: physical addresses usable as mapping targets (index 0 = default)
    pub leaf_flags: Vec<u64>,         // index 0 = default
    pub parent_flags: Vec<u64>,       // index 0 = default
    pub ident: Vec<(u8, u64)>,        // identity_map targets (size, address)
    pub ranges: Vec<(u64, u64)>,      // clean-up ranges, inclusive 4 KiB page starts (start > end = empty)
    pub probes: Vec<u64>,             // full probe set
    pub probes_small: Vec<u64>,       // reduced probe set
}

fn va4(p4: u64, p3: u64, p2: u64, p1: u64) -> u64 {
    sext(p4 << 39 | p3 << 30 | p2 << 21 | p1 << 12)
}

pub fn alphabet(cfg: &Config) -> Alpha {
    let pages: Vec<(u8, u64)> = if cfg.variant == 'C' {
        // relations between indices: equal indices at two, three or four levels, swapped index pairs
        vec![
            (2, va4(3, 3, 0, 0)), (2, va4(5, 5, 0, 0)),
            (1, va4(3, 3, 3, 0)), (1, va4(3, 5, 5, 0)), (1, va4(5, 5, 3, 0)),
            (0, va4(3, 3, 3, 3)), (0, va4(3, 3, 3, 4)), (0, va4(3, 5, 5, 5)), (0, va4(3, 5, 3, 5)), (0, va4(5, 3, 5, 3)), (0, va4(5, 5, 5, 5)),
        ]
    } else if cfg.variant == 'W' {
        // wide: 21 sibling tables under one parent at each level (as many as the frame pool can hold at once)
        let mut v = vec![];
        for i in 0..21u64 {
            v.push((0, va4(3, 5, i, 9)));
        }
        for i in 0..21u64 {
            v.push((1, va4(3, i, 7, 0)));
        }
        for i in 0..21u64 {
            v.push((2, va4(i, 5, 0, 0)));
        }
        v
    } else if cfg.variant == 'A' {
        vec![
            (2, va4(3, 5, 0, 0)), (2, va4(3, 6, 0, 0)),
            (1, va4(3, 5, 7, 0)), (1, va4(3, 5, 8, 0)), (1, va4(3, 6, 7, 0)),
            (0, va4(3, 5, 7, 9)), (0, va4(3, 5, 7, 10)), (0, va4(3, 5, 8, 9)), (0, va4(3, 6, 7, 9)), (0, va4(4, 5, 7, 9)),
        ]
    } else {
        vec![
            (2, va4(0, 0, 0, 0)), (2, va4(255, 511, 0, 0)), (2, va4(256, 0, 0, 0)), (2, va4(511, 511, 0, 0)),
            (1, va4(0, 0, 0, 0)), (1, va4(255, 511, 511, 0)), (1, va4(256, 0, 0, 0)), (1, va4(511, 511, 511, 0)),
            (0, va4(0, 0, 0, 0)), (0, va4(0, 0, 0, 1)), (0, va4(255, 511, 511, 511)), (0, va4(256, 0, 0, 0)), (0, va4(511, 511, 511, 511)),
        ]
    };
    let mut pages = pages;
    if let (Impl::Recursive(r), 'C') = (cfg.imp, cfg.variant) {
        // the recursive slot itself cannot be mapped through
        pages.retain(|&(_, a)| (a >> 39) & 0x1ff != r as u64);
    }
    if let (Impl::Recursive(r), 'A') = (cfg.imp, cfg.variant) {
        // pages whose level-3 / level-2 / level-1 index equals the recursive index (only the level-4 slot R is special)
        let r = r as u64;
        pages.push((0, va4(3, r, 7, 9)));
        pages.push((0, va4(3, 5, r, 9)));
        pages.push((0, va4(3, 5, 7, r)));
    }
    let end = cfg.pbase + (NF * FSZ) as u64;
    let up = |x: u64, a: u64| (x + a - 1) & !(a - 1);
    // the last target of every size is physical address 0 (an entry whose address field is all-zero is still an entry)
    let f4 = vec![cfg.pbase + 40 * FSZ as u64, cfg.pbase + 41 * FSZ as u64, (1u64 << 52) - 0x1000, 0];
    let b2 = up(end, 0x20_0000);
    let f2 = vec![b2, b2 + 0x20_0000, (1u64 << 52) - 0x20_0000, 0];
    let b1 = up(end, 0x4000_0000);
    let f1 = vec![b1, b1 + 0x4000_0000, (1u64 << 52) - 0x4000_0000, 0];
    // indices 0..LEAF_IN_DOMAIN / 0..PARENT_IN_DOMAIN are the quantified domain; the last element of each list lacks PRESENT
    // (outside the quantified domain; explored as a deviation with a reduced, representation-level oracle)
    // index 5: PAT bit of huge pages (bit 12, overlaps the address field of 4 KiB-granular addresses: O2) — outside the domain too
    let leaf_flags = vec![P | W, P, ALL_LEAF, P | HUGE /* = PAT bit on a 4 KiB leaf; only used for 4 KiB */, W, P | W | 0x1000];
    // index 5: the PS bit on a level-4 entry (reserved there; reachable through set_flags_p4_entry) — outside the domain, level 4 only
    let parent_flags = vec![P | W, P, P | W | U, P | W | 0x200 | 0x400 | (0x7ffu64 << 52) | (1 << 63), W, P | W | HUGE];
    // identity map: lower-half alphabet pages whose address is also a valid physical address
    let mut ident = Vec::new();
    for sz in [2u8, 1, 0] {
        if let Some(&(s, a)) = pages.iter().find(|(s, a)| *s == sz && *a < (1 << 47) && *a != 0) {
            ident.push((s, a));
        }
    }
    let ranges: Vec<(u64, u64)> = if cfg.variant == 'C' {
        vec![
            (va4(3, 3, 3, 4), va4(3, 3, 3, 3)),             // empty
            (va4(3, 3, 3, 3), va4(3, 3, 3, 3)),             // single page
            (va4(3, 3, 3, 0), va4(3, 3, 3, 511)),           // exactly one L1 table
            (va4(3, 3, 3, 3), va4(3, 5, 5, 5)),             // from one "diagonal" page to another
            (va4(3, 5, 3, 5), va4(3, 5, 5, 5)),
            (va4(3, 3, 0, 0), va4(3, 3, 511, 511)),         // one L2 table
            (va4(3, 0, 0, 0), va4(3, 511, 511, 511)),       // one L3 table
            (va4(5, 0, 0, 0), va4(5, 511, 511, 511)),       // the other L3 table
            (va4(3, 5, 5, 5), va4(5, 3, 5, 3)),
            (va4(5, 5, 5, 5), va4(5, 5, 5, 5)),
            (va4(0, 0, 0, 0), va4(255, 511, 511, 511)),
            (va4(0, 0, 0, 0), va4(511, 511, 511, 511)),
            (va4(3, 3, 3, 100), va4(5, 3, 3, 200)),
            (va4(3, 3, 3, 100), va4(3, 5, 3, 100)),
        ]
    } else if cfg.variant == 'A' || cfg.variant == 'W' {
        vec![
            (va4(3, 5, 7, 10), va4(3, 5, 7, 9)),            // empty
            (va4(3, 5, 7, 9), va4(3, 5, 7, 9)),             // single page
            (va4(3, 5, 7, 0), va4(3, 5, 7, 511)),           // exactly one L1 table
            (va4(3, 5, 7, 100), va4(3, 5, 8, 100)),         // unaligned across two L1 tables
            (va4(3, 5, 7, 10), va4(3, 5, 7, 511)),          // inside one table, not its first entries
            (va4(3, 5, 6, 0), va4(3, 5, 7, 0)),             // touches table (3,5,7) only in its first entry
            (va4(3, 5, 0, 0), va4(3, 6, 511, 511)),         // two L2 tables
            (va4(3, 5, 8, 0), va4(3, 6, 7, 511)),           // across L2 tables, unaligned
            (va4(3, 0, 0, 0), va4(4, 511, 511, 511)),       // two L3 tables
            (va4(4, 0, 0, 0), va4(4, 511, 511, 511)),       // the other L3 table only
            (va4(0, 0, 0, 0), va4(255, 511, 511, 511)),     // lower half
            (va4(0, 0, 0, 0), va4(511, 511, 511, 511)),     // everything (spans the gap)
            (va4(3, 5, 7, 100), va4(4, 5, 7, 200)),         // ends with equal level-3/2 indices in different level-4 slots
            (va4(3, 5, 7, 100), va4(3, 6, 7, 100)),         // ends with equal level-2/1 indices in different level-3 slots
        ]
    } else {
        vec![
            (va4(0, 0, 0, 1), va4(0, 0, 0, 0)),
            (va4(0, 0, 0, 0), va4(0, 0, 0, 0)),
            (va4(0, 0, 0, 0), va4(0, 0, 0, 511)),
            (va4(0, 0, 0, 1), va4(0, 0, 1, 0)),
            (va4(255, 511, 511, 0), va4(255, 511, 511, 511)),
            (va4(255, 511, 511, 511), va4(256, 0, 0, 0)),    // spans the gap
            (va4(255, 0, 0, 0), va4(256, 511, 511, 511)),
            (va4(511, 511, 511, 0), va4(511, 511, 511, 511)),
            (va4(511, 511, 511, 511), va4(511, 511, 511, 511)),
            (va4(256, 0, 0, 0), va4(511, 511, 511, 511)),
            (va4(0, 0, 0, 0), va4(255, 511, 511, 511)),
            (va4(0, 0, 0, 0), va4(511, 511, 511, 511)),
            (va4(0, 0, 0, 100), va4(255, 0, 0, 200)),
            (va4(255, 511, 511, 100), va4(511, 511, 511, 100)),
        ]
    };
    // probe addresses
    let mut probes = Vec::new();
    let mut small = Vec::new();
    for &(sz, a) in &pages {
        let s = size_of(sz);
        probes.push(a);
        probes.push(a + (s - 1));
        let mut b = 1u64;
        while b < s {
            probes.push(a + b);
            b <<= 1;
        }
        small.push(a);
        small.push(a + (s - 1));
        small.push(a + (0x5a5a_5a5a & (s - 1)));
        for q in [a.wrapping_sub(1), a.wrapping_add(s)] {
            if sext(q & 0xffff_ffff_ffff) == q {
                probes.push(q);
                small.push(q);
            }
        }
    }
    probes.sort_unstable();
    probes.dedup();
    small.sort_unstable();
    small.dedup();
    Alpha { pages, frames: [f4, f2, f1], leaf_flags, parent_flags, ident, ranges, probes, probes_small: small }
}

// ------------------------------------------------------------------------------------------------ actions

#[derive(Clone, Copy, Debug, PartialEq, Eq, Hash)]
pub enum Act {
    /// map_to_with_table_flags(page, frame, flags, parent, alloc) — parent == 255: plain map_to (parent flags derived)
    Map { page: u8, frame: u8, flags: u8, parent: u8, sched: u8 },
    Ident { which: u8, flags: u8, sched: u8 },
    /// identity_map of a frame whose physical address is not a canonical virtual address (no page has that address)
    IdentHigh { which: u8 },
    Unmap { page: u8 },
    Update { page: u8, flags: u8 },
    SetP { level: u8, page: u8, flags: u8 },
    CleanAll,
    CleanRange { r: u8 },
}
/// allocator failure schedules: 0 never, 1/2/3 fail the k-th request of the call, 4 all
pub const SCHEDS: u8 = 5;
pub const LEAF_IN_DOMAIN: u8 = 4;
pub const PARENT_IN_DOMAIN: u8 = 4;
pub const LEAF_OOD: u8 = 4;
pub const PARENT_OOD: u8 = 4;
pub const PARENT_P4_HUGE: u8 = 5;
/// every PageTableFlags bit except HUGE_PAGE (bit 7) — includes ACCESSED/DIRTY, cache bits, GLOBAL, all available bits, NO_EXECUTE
pub const ALL_LEAF: u64 = P | W | U | 0x8 | 0x10 | 0x20 | 0x40 | 0x100 | 0xe00 | (0x7ffu64 << 52) | (1 << 63);
pub const LEAF_PAT_HUGE: u8 = 5;

/// frames (size code, physical address) with address bit 47 or bits 48..51 set
pub const IDENT_HIGH: [(u8, u64); 4] = [(0, 0x0000_8000_0000_1000), (1, 0x0001_0000_0020_0000), (2, 0x0008_0000_4000_0000), (0, 0x000f_ffff_ffff_f000)];

pub fn actions(al: &Alpha) -> Vec<(Act, u8)> {
    let mut v: Vec<(Act, u8)> = Vec::new();
    for (pi, &(sz, _)) in al.pages.iter().enumerate() {
        let pi = pi as u8;
        // default map first (simplest-first ordering)
        v.push((Act::Map { page: pi, frame: 0, flags: 0, parent: 0, sched: 0 }, 0));
        v.push((Act::Unmap { page: pi }, 0));
        v.push((Act::Update { page: pi, flags: 1 }, 0));
        for level in [4u8, 3, 2] {
            v.push((Act::SetP { level, page: pi, flags: 2 }, 0));
        }
        // one-deviation variants
        for f in 1..al.frames[sz as usize].len() as u8 {
            v.push((Act::Map { page: pi, frame: f, flags: 0, parent: 0, sched: 0 }, 1));
        }
        // index 3 carries bit 7: the PAT bit of a 4 KiB leaf, and for a huge page the (redundant but legal) PS bit itself
        let nfl = LEAF_IN_DOMAIN;
        for f in 1..nfl {
            v.push((Act::Map { page: pi, frame: 0, flags: f, parent: 0, sched: 0 }, 1));
        }
        for p in 1..PARENT_IN_DOMAIN {
            v.push((Act::Map { page: pi, frame: 0, flags: 0, parent: p, sched: 0 }, 1));
        }
        v.push((Act::Map { page: pi, frame: 0, flags: 2, parent: 255, sched: 0 }, 1)); // map_to: parent flags derived from the leaf flags
        v.push((Act::Map { page: pi, frame: 0, flags: 1, parent: 255, sched: 0 }, 1));
        for s in 1..SCHEDS {
            v.push((Act::Map { page: pi, frame: 0, flags: 0, parent: 0, sched: s }, 1));
        }
        v.push((Act::Update { page: pi, flags: 0 }, 1));
        v.push((Act::Update { page: pi, flags: 2 }, 1));
        for level in [4u8, 3, 2] {
            v.push((Act::SetP { level, page: pi, flags: 1 }, 1));
            v.push((Act::SetP { level, page: pi, flags: 3 }, 1));
        }
        // outside the quantified domain: a huge page mapped with its PAT bit (bit 12)
        if sz > 0 {
            v.push((Act::Map { page: pi, frame: 0, flags: LEAF_PAT_HUGE, parent: 0, sched: 0 }, 1));
        } else {
            // the same flag word on a 4 KiB leaf, where bit 12 is also an address bit: frames with that bit clear and set
            v.push((Act::Map { page: pi, frame: 0, flags: LEAF_PAT_HUGE, parent: 0, sched: 0 }, 1));
            v.push((Act::Map { page: pi, frame: 1, flags: LEAF_PAT_HUGE, parent: 0, sched: 0 }, 1));
        }
        // outside the quantified domain: flags without PRESENT
        v.push((Act::Update { page: pi, flags: LEAF_OOD }, 1));
        // ... handed to the map calls: map_to derives non-present parent flags from them, map_to_with_table_flags gets them
        // explicitly (the pinned crate panics where it would have to walk through a non-present parent entry it just wrote;
        // whatever a call does, it may touch page-table memory only)
        v.push((Act::Map { page: pi, frame: 0, flags: LEAF_OOD, parent: 255, sched: 0 }, 1));
        v.push((Act::Map { page: pi, frame: 0, flags: LEAF_OOD, parent: 0, sched: 0 }, 1));
        v.push((Act::Map { page: pi, frame: 0, flags: 0, parent: PARENT_OOD, sched: 0 }, 1));
        for level in [4u8, 3, 2] {
            v.push((Act::SetP { level, page: pi, flags: PARENT_OOD }, 1));
        }
        v.push((Act::SetP { level: 4, page: pi, flags: PARENT_P4_HUGE }, 1));
    }
    for i in 0..al.ident.len() as u8 {
        v.push((Act::Ident { which: i, flags: 0, sched: 0 }, 1));
    }
    for i in 0..IDENT_HIGH.len() as u8 {
        v.push((Act::IdentHigh { which: i }, 1));
    }
    v.push((Act::CleanAll, 0));
    for r in 0..al.ranges.len() as u8 {
        // default (deviation-free) ranges: the first four and one that starts unaligned inside one level-3 slot and ends in the next
        v.push((Act::CleanRange { r }, if r < 4 || r == 7 { 0 } else { 1 }));
    }
    v
}

// ------------------------------------------------------------------------------------------------ allocator / deallocator

pub struct AllocState {
    pub free: Vec<u16>, // candidate frames; the policy decides which one is handed out next
}
pub struct Alloc<'a> {
    pub st: &'a mut AllocState,
    pub policy: Policy,
    pub sched: u8,
    pub requests: u32,
    pub given: Vec<u16>,
}
fn pick(policy: Policy, free: &[u16]) -> Option<usize> {
    if free.is_empty() {
        return None;
    }
    Some(match policy {
        Policy::Lifo => free.len() - 1,
        Policy::Ascending => free.iter().enumerate().filter(|(_, &f)| f != 0).min_by_key(|(_, &f)| f).map(|(i, _)| i).unwrap_or(0),
        Policy::AlignedFirst => free.iter().enumerate().min_by_key(|(_, &f)| f).map(|(i, _)| i).unwrap(),
    })
}
unsafe impl FrameAllocator<Size4KiB> for Alloc<'_> {
    fn allocate_frame(&mut self) -> Option<PhysFrame<Size4KiB>> {
        self.requests += 1;
        let fail = match self.sched {
            0 => false,
            4 => true,
            k => self.requests == k as u32,
        };
        if fail {
            return None;
        }
        let i = pick(self.policy, &self.st.free)?;
        let f = self.st.free.remove(i);
        self.given.push(f);
        let s = sim();
        s.set_table(f as usize, true); // from now on the code under test may touch it (it still holds garbage)
        Some(PhysFrame::from_start_address(PhysAddr::new(s.phys_of(f as usize))).unwrap())
    }
}

pub struct Dealloc<'a> {
    pub st: &'a mut AllocState,
    pub freed: Vec<u16>,
    pub problems: Vec<String>,
    pub skip_slot: Option<usize>,
}
impl FrameDeallocator<Size4KiB> for Dealloc<'_> {
    unsafe fn deallocate_frame(&mut self, frame: PhysFrame<Size4KiB>) {
        let s = sim();
        let pa = frame.start_address().as_u64();
        match s.frame_of_phys(pa) {
            None => self.problems.push(format!("deallocated a frame outside simulated memory ({:#x})", pa)),
            Some(f) => {
                if f == L4_FRAME {
                    self.problems.push("deallocated the level-4 table".into());
                    return;
                }
                if !s.is_table[f] {
                    self.problems.push(format!("deallocated frame {} which is not a page table of the hierarchy (or was freed before)", f));
                    return;
                }
                // at the moment of the callback: entirely empty, and no longer linked from the hierarchy
                if !s.is_zero(f) {
                    self.problems.push(format!("deallocated table frame {} that still holds an entry", f));
                }
                let t = walk_all_mode(s, self.skip_slot, true);
                if t.tables.values().any(|&x| x as usize == f) {
                    self.problems.push(format!("deallocated table frame {} before unlinking it from its parent", f));
                }
                self.freed.push(f as u16);
                s.poison(f);
                s.set_table(f, false);
                self.st.free.push(f as u16);
            }
        }
    }
}

// ------------------------------------------------------------------------------------------------ frame mapping for MappedPageTable

pub struct PermMapping;
unsafe impl PageTableFrameMapping for PermMapping {
    fn frame_to_pointer(&self, frame: PhysFrame) -> *mut PageTable {
        let s = sim();
        match s.frame_of_phys(frame.start_address().as_u64()) {
            Some(f) => s.cut_addr(f) as *mut PageTable,
            None => {
                unsafe { simphys::LAST_UNKNOWN_FRAME = frame.start_address().as_u64() };
                TRAP_BASE as *mut PageTable
            }
        }
    }
}

// ------------------------------------------------------------------------------------------------ outcome of one call

#[derive(Clone, Debug, PartialEq, Eq)]
pub enum Oc {
    Ok,
    AlreadyMapped,
    ParentHuge,
    NotMapped,
    AllocFailed,
    InvalidFrame,
    Panic,
    Done, // clean-up (no result)
}
#[derive(Clone, Debug)]
pub struct Outcome {
    pub oc: Oc,
    pub flush_page: Option<u64>, // MapperFlush::page()
    pub flush_all: bool,         // a MapperFlushAll token was returned
    pub frame: Option<u64>,      // frame returned by unmap
    pub requests: u32,
    pub given: Vec<u16>,
    pub freed: Vec<u16>,
    pub dealloc_problems: Vec<String>,
}

fn map_err<S: PageSize>(e: MapToError<S>) -> Oc {
    match e {
        MapToError::FrameAllocationFailed => Oc::AllocFailed,
        MapToError::ParentEntryHugePage => Oc::ParentHuge,
        MapToError::PageAlreadyMapped(_) => Oc::AlreadyMapped,
    }
}
fn unmap_err(e: UnmapError) -> Oc {
    match e {
        UnmapError::ParentEntryHugePage => Oc::ParentHuge,
        UnmapError::PageNotMapped => Oc::NotMapped,
        UnmapError::InvalidFrameAddress(_) => Oc::InvalidFrame,
    }
}
fn flag_err(e: FlagUpdateError) -> Oc {
    match e {
        FlagUpdateError::PageNotMapped => Oc::NotMapped,
        FlagUpdateError::ParentEntryHugePage => Oc::ParentHuge,
    }
}
pub fn tr_err(e: TranslateError) -> Oc {
    match e {
        TranslateError::PageNotMapped => Oc::NotMapped,
        TranslateError::ParentEntryHugePage => Oc::ParentHuge,
        TranslateError::InvalidFrameAddress(_) => Oc::InvalidFrame,
    }
}

pub trait AllMapper: Mapper<Size4KiB> + Mapper<Size2MiB> + Mapper<Size1GiB> + Translate + CleanUp {}
impl<T: Mapper<Size4KiB> + Mapper<Size2MiB> + Mapper<Size1GiB> + Translate + CleanUp> AllMapper for T {}

fn fl(x: u64) -> PageTableFlags {
    PageTableFlags::from_bits_retain(x)
}

fn do_sized<S: PageSize, M: Mapper<S>>(m: &mut M, act: &Act, al: &Alpha, page_va: u64, sz: u8, alloc: &mut Alloc, out: &mut Outcome) {
    let page = Page::<S>::from_start_address(VirtAddr::new(page_va)).unwrap();
    match *act {
        Act::Map { frame, flags, parent, .. } => {
            let fr = PhysFrame::<S>::from_start_address(PhysAddr::new(al.frames[sz as usize][frame as usize])).unwrap();
            let r = unsafe {
                if parent == 255 {
                    m.map_to(page, fr, fl(al.leaf_flags[flags as usize]), alloc)
                } else {
                    m.map_to_with_table_flags(page, fr, fl(al.leaf_flags[flags as usize]), fl(al.parent_flags[parent as usize]), alloc)
                }
            };
            match r {
                Ok(f) => {
                    out.oc = Oc::Ok;
                    out.flush_page = Some(f.page().start_address().as_u64());
                    f.ignore();
                }
                Err(e) => {
                    if let MapToError::PageAlreadyMapped(f) = &e {
                        out.frame = Some(f.start_address().as_u64());
                    }
                    out.oc = map_err(e)
                }
            }
        }
        Act::Ident { flags, .. } => {
            let fr = PhysFrame::<S>::from_start_address(PhysAddr::new(page_va)).unwrap();
            match unsafe { m.identity_map(fr, fl(al.leaf_flags[flags as usize]), alloc) } {
                Ok(f) => {
                    out.oc = Oc::Ok;
                    out.flush_page = Some(f.page().start_address().as_u64());
                    f.ignore();
                }
                Err(e) => {
                    if let MapToError::PageAlreadyMapped(f) = &e {
                        out.frame = Some(f.start_address().as_u64());
                    }
                    out.oc = map_err(e)
                }
            }
        }
        Act::Unmap { .. } => match m.unmap(page) {
            Ok((fr, f)) => {
                out.oc = Oc::Ok;
                out.frame = Some(fr.start_address().as_u64());
                out.flush_page = Some(f.page().start_address().as_u64());
                f.ignore();
            }
            Err(e) => out.oc = unmap_err(e),
        },
        Act::Update { flags, .. } => match unsafe { m.update_flags(page, fl(al.leaf_flags[flags as usize])) } {
            Ok(f) => {
                out.oc = Oc::Ok;
                out.flush_page = Some(f.page().start_address().as_u64());
                f.ignore();
            }
            Err(e) => out.oc = flag_err(e),
        },
        Act::SetP { level, flags, .. } => {
            let f = fl(al.parent_flags[flags as usize]);
            let r = unsafe {
                match level {
                    4 => m.set_flags_p4_entry(page, f),
                    3 => m.set_flags_p3_entry(page, f),
                    _ => m.set_flags_p2_entry(page, f),
                }
            };
            match r {
                Ok(t) => {
                    out.oc = Oc::Ok;
                    out.flush_all = true;
                    t.ignore();
                }
                Err(e) => out.oc = flag_err(e),
            }
        }
        _ => unreachable!(),
    }
}

pub fn is_ood_action(act: &Act) -> bool {
    matches!(act, Act::Update { flags, .. } if *flags == LEAF_OOD) || matches!(act, Act::SetP { flags, .. } if *flags == PARENT_OOD || *flags == PARENT_P4_HUGE) || matches!(act, Act::Map { flags, parent, .. } if *flags == LEAF_PAT_HUGE || *flags == LEAF_OOD || *parent == PARENT_OOD)
}

/// page (size, start) an action works on
pub fn act_page(act: &Act, al: &Alpha) -> Option<(u8, u64)> {
    match *act {
        Act::Map { page, .. } | Act::Unmap { page } | Act::Update { page, .. } | Act::SetP { page, .. } => Some(al.pages[page as usize]),
        Act::Ident { which, .. } => Some(al.ident[which as usize]),
        _ => None,
    }
}

/// Execute one action on a mapper. Panics of the code under test are caught by the caller.
pub fn exec<M: AllMapper>(m: &mut M, act: &Act, al: &Alpha, policy: Policy, ast: &mut AllocState, skip_slot: Option<usize>) -> Outcome {
    let mut out = Outcome { oc: Oc::Done, flush_page: None, flush_all: false, frame: None, requests: 0, given: vec![], freed: vec![], dealloc_problems: vec![] };
    match *act {
        Act::IdentHigh { which } => {
            let (sz, pa) = IDENT_HIGH[which as usize];
            let mut alloc = Alloc { st: ast, policy, sched: 0, requests: 0, given: vec![] };
            let flags = fl(al.leaf_flags[0]);
            // a panic of the call itself unwinds to the caller's catch (outcome None)
            let r = unsafe {
                match sz {
                    0 => m.identity_map(PhysFrame::<Size4KiB>::from_start_address(PhysAddr::new(pa)).unwrap(), flags, &mut alloc).map(|f| { let a = f.page().start_address().as_u64(); f.ignore(); a }).map_err(map_err),
                    1 => m.identity_map(PhysFrame::<Size2MiB>::from_start_address(PhysAddr::new(pa)).unwrap(), flags, &mut alloc).map(|f| { let a = f.page().start_address().as_u64(); f.ignore(); a }).map_err(map_err),
                    _ => m.identity_map(PhysFrame::<Size1GiB>::from_start_address(PhysAddr::new(pa)).unwrap(), flags, &mut alloc).map(|f| { let a = f.page().start_address().as_u64(); f.ignore(); a }).map_err(map_err),
                }
            };
            match r {
                Ok(a) => { out.oc = Oc::Ok; out.flush_page = Some(a); }
                Err(e) => out.oc = e,
            }
            out.requests = alloc.requests;
            out.given = alloc.given;
        }
        Act::CleanAll | Act::CleanRange { .. } => {
            let mut d = Dealloc { st: ast, freed: vec![], problems: vec![], skip_slot };
            unsafe {
                match *act {
                    Act::CleanAll => m.clean_up(&mut d),
                    Act::CleanRange { r } => {
                        let (s, e) = al.ranges[r as usize];
                        let range = PageRangeInclusive { start: Page::from_start_address(VirtAddr::new(s)).unwrap(), end: Page::from_start_address(VirtAddr::new(e)).unwrap() };
                        m.clean_up_addr_range(range, &mut d)
                    }
                    _ => unreachable!(),
                }
            }
            out.freed = d.freed;
            out.dealloc_problems = d.problems;
        }
        _ => {
            let sched = match *act {
                Act::Map { sched, .. } | Act::Ident { sched, .. } => sched,
                _ => 0,
            };
            let (sz, va) = act_page(act, al).unwrap();
            let mut alloc = Alloc { st: ast, policy, sched, requests: 0, given: vec![] };
            match sz {
                0 => do_sized::<Size4KiB, M>(m, act, al, va, sz, &mut alloc, &mut out),
                1 => do_sized::<Size2MiB, M>(m, act, al, va, sz, &mut alloc, &mut out),
                _ => do_sized::<Size1GiB, M>(m, act, al, va, sz, &mut alloc, &mut out),
            }
            out.requests = alloc.requests;
            out.given = alloc.given;
        }
    }
    out
}

/// Run a generic closure on the configured mapper (monomorphised per implementation).
macro_rules! on_mapper {
    ($cfg:expr, |$m:ident| $body:expr) => {{
        let __s = $crate::simphys::sim();
        let __l4: &mut x86_64::structures::paging::PageTable = unsafe { &mut *(__s.l4_addr() as *mut x86_64::structures::paging::PageTable) };
        match $cfg.imp {
            $crate::mp::Impl::Offset => {
                let mut $m = unsafe { x86_64::structures::paging::mapper::OffsetPageTable::new(__l4, x86_64::VirtAddr::new($crate::simphys::CUT_BASE - $cfg.pbase)) };
                $body
            }
            $crate::mp::Impl::Mapped => {
                let mut $m = unsafe { x86_64::structures::paging::mapper::MappedPageTable::new(__l4, $crate::mp::PermMapping) };
                $body
            }
            $crate::mp::Impl::Recursive(r) => {
                let __l4: &mut x86_64::structures::paging::PageTable = if $cfg.alias { unsafe { &mut *($crate::simphys::L4_ALIAS as *mut x86_64::structures::paging::PageTable) } } else { __l4 };
                let mut $m = unsafe { x86_64::structures::paging::mapper::RecursivePageTable::new_unchecked(__l4, x86_64::structures::paging::PageTableIndex::new(r)) };
                $body
            }
        }
    }};
}
pub(crate) use on_mapper;

/// what the implementation's translate() says, normalised: Some((page start, size, phys of page start, flags masked))
pub fn impl_translate<M: Translate>(m: &M, va: u64) -> Result<Option<(u64, u8, u64, u64)>, String> {
    match m.translate(VirtAddr::new(va)) {
        TranslateResult::NotMapped => Ok(None),
        TranslateResult::InvalidFrameAddress(a) => Err(format!("InvalidFrameAddress({:#x})", a.as_u64())),
        TranslateResult::Mapped { frame, offset, flags } => {
            let (sz, start) = match frame {
                MappedFrame::Size4KiB(f) => (0u8, f.start_address().as_u64()),
                MappedFrame::Size2MiB(f) => (1, f.start_address().as_u64()),
                MappedFrame::Size1GiB(f) => (2, f.start_address().as_u64()),
            };
            if offset >= size_of(sz) {
                return Err(format!("offset {:#x} not inside the page", offset));
            }
            if va.wrapping_sub(offset) != base_of(va, size_of(sz)) {
                return Err(format!("offset {:#x} is not the distance from the page start", offset));
            }
            Ok(Some((va - offset, sz, start, flags.bits() & FLAG_MASK)))
        }
    }
}
