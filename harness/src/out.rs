//! Reporting: evaluation counters, violation collection, JSON-lines output consumed by /verif/check.
use std::collections::BTreeMap;
use std::fmt::Write as _;

pub fn jstr(s: &str) -> String {
    let mut o = String::with_capacity(s.len() + 2);
    o.push('"');
    for c in s.chars() {
        match c {
            '"' => o.push_str("\\\""),
            '\\' => o.push_str("\\\\"),
            '\n' => o.push_str("\\n"),
            '\r' => o.push_str("\\r"),
            '\t' => o.push_str("\\t"),
            c if (c as u32) < 0x20 => {
                let _ = write!(o, "\\u{:04x}", c as u32);
            }
            c => o.push(c),
        }
    }
    o.push('"');
    o
}

#[derive(Clone, Debug)]
pub struct Viol {
    pub sig: String,
    pub case: String,
    pub detail: String,
    pub count: u64,
}

/// One report per (property, part, profile, shard).
pub struct Rep {
    pub prop: String,
    pub part: String,
    pub evals: u64,
    pub nontrivial: u64,
    pub states: u64,
    pub transitions: u64,
    pub max_depth: u64,
    pub exhaustive: bool,
    pub viols: BTreeMap<String, Viol>,
    pub samples: Vec<String>,
    pub hist: BTreeMap<String, u64>,
    pub notes: Vec<String>,
    pub caps: Vec<String>,
    pub total_viol: u64,
}

impl Rep {
    pub fn new(prop: &str, part: &str) -> Rep {
        Rep {
            prop: prop.to_string(),
            part: part.to_string(),
            evals: 0,
            nontrivial: 0,
            states: 0,
            transitions: 0,
            max_depth: 0,
            exhaustive: false,
            viols: BTreeMap::new(),
            samples: Vec::new(),
            hist: BTreeMap::new(),
            notes: Vec::new(),
            caps: Vec::new(),
            total_viol: 0,
        }
    }
    #[inline]
    pub fn ev(&mut self, nontrivial: bool) {
        self.evals += 1;
        if nontrivial {
            self.nontrivial += 1;
        }
    }
    pub fn bucket(&mut self, k: &str) {
        *self.hist.entry(k.to_string()).or_insert(0) += 1;
    }
    pub fn bucket_n(&mut self, k: &str, n: u64) {
        *self.hist.entry(k.to_string()).or_insert(0) += n;
    }
    pub fn sample(&mut self, s: String) {
        if self.samples.len() < 6 {
            self.samples.push(s);
        }
    }
    pub fn note(&mut self, s: &str) {
        if !self.notes.iter().any(|n| n == s) {
            self.notes.push(s.to_string());
        }
    }
    /// Record a violation. `sig` is the abstract signature (used for known-finding matching),
    /// `case` a replayable case descriptor, `detail` free text. Only the first case per signature is kept.
    pub fn viol(&mut self, sig: &str, case: &str, detail: &str) {
        self.total_viol += 1;
        let e = self.viols.entry(sig.to_string()).or_insert_with(|| Viol {
            sig: sig.to_string(),
            case: case.to_string(),
            detail: detail.to_string(),
            count: 0,
        });
        e.count += 1;
    }
    pub fn emit(&self) {
        for v in self.viols.values() {
            println!(
                "{{\"type\":\"violation\",\"prop\":{},\"part\":{},\"sig\":{},\"case\":{},\"detail\":{},\"count\":{}}}",
                jstr(&self.prop),
                jstr(&self.part),
                jstr(&v.sig),
                jstr(&v.case),
                jstr(&v.detail),
                v.count
            );
        }
        let mut h = String::from("{");
        for (i, (k, v)) in self.hist.iter().enumerate() {
            if i > 0 {
                h.push(',');
            }
            let _ = write!(h, "{}:{}", jstr(k), v);
        }
        h.push('}');
        let arr = |v: &Vec<String>| {
            let mut s = String::from("[");
            for (i, x) in v.iter().enumerate() {
                if i > 0 {
                    s.push(',');
                }
                s.push_str(&jstr(x));
            }
            s.push(']');
            s
        };
        println!(
            "{{\"type\":\"summary\",\"prop\":{},\"part\":{},\"evaluations\":{},\"nontrivial\":{},\"states\":{},\"transitions\":{},\"max_depth\":{},\"exhaustive\":{},\"violations\":{},\"hist\":{},\"samples\":{},\"notes\":{},\"caps\":{}}}",
            jstr(&self.prop),
            jstr(&self.part),
            self.evals,
            self.nontrivial,
            self.states,
            self.transitions,
            self.max_depth,
            self.exhaustive,
            self.total_viol,
            h,
            arr(&self.samples),
            arr(&self.notes),
            arr(&self.caps)
        );
    }
}

/// Run `f`, converting a panic into Err(()).
#[inline]
pub fn catch<R>(f: impl FnOnce() -> R) -> Result<R, ()> {
    std::panic::catch_unwind(std::panic::AssertUnwindSafe(f)).map_err(|_| ())
}

pub fn silence_panics() {
    let dbg = std::env::var_os("VH_DEBUG").is_some();
    std::panic::set_hook(Box::new(move |info| {
        crate::simcpu::panic_hook_notify();
        if dbg {
            eprintln!("[panic] {}", info);
        }
    }));
}

/// Which arithmetic profile this binary was built with.
pub fn profile() -> &'static str {
    if cfg!(debug_assertions) {
        "chk"
    } else {
        "rel"
    }
}
pub fn overflow_checks_on() -> bool {
    // detect at run time, without relying on cfg: u8 addition that overflows.
    let a: u8 = std::hint::black_box(255);
    let b: u8 = std::hint::black_box(1);
    catch(|| a + b).is_err()
}

/// Run one case; a panic that escapes it (a crate call the property requires to be total panicked) becomes a violation
/// instead of a worker crash.
pub fn guarded(r: &mut Rep, sig: &str, case: impl Fn() -> String, f: impl FnOnce(&mut Rep)) {
    if catch(|| f(&mut *r)).is_err() {
        r.viol(sig, &case(), "a call that must not panic panicked (caught at case level)");
    }
}
