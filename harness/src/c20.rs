//! C20 — RecursivePageTable validates its table and computes exact recursive addresses.
#![allow(static_mut_refs)]
use crate::out::*;
use crate::r1::sext;
use crate::simcpu::{cpu, run_fault};
use crate::simphys::{self, sim, View, FSZ, L4_FRAME};
use crate::Args;
use x86_64::structures::paging::mapper::recursive_verif_hooks as hk;
use x86_64::structures::paging::mapper::{InvalidPageTable, RecursivePageTable, Translate};
use x86_64::structures::paging::{Page, PageTable, PageTableIndex, Size1GiB, Size2MiB, Size4KiB};
use x86_64::VirtAddr;

// ------------------------------------------------------------------ (b) address computation, all 512 recursive indices

fn va4(a: u64, b: u64, c: u64, d: u64) -> u64 {
    sext(a << 39 | b << 30 | c << 21 | d << 12)
}

pub fn addr_case(r: &mut Rep, ri: u16, p4: u64, p3: u64, p2: u64, p1: u64) {
    let rr = ri as u64;
    let idx = PageTableIndex::new(ri);
    r.ev(true);
    let case = format!("rectab {} {} {} {} {}", ri, p4, p3, p2, p1);
    let pg4 = Page::<Size4KiB>::from_start_address(VirtAddr::new(va4(p4, p3, p2, p1))).unwrap();
    let pg2 = Page::<Size2MiB>::from_start_address(VirtAddr::new(va4(p4, p3, p2, 0))).unwrap();
    let pg1 = Page::<Size1GiB>::from_start_address(VirtAddr::new(va4(p4, p3, 0, 0))).unwrap();
    let e3 = va4(rr, rr, rr, p4);
    let e2 = va4(rr, rr, p4, p3);
    let e1 = va4(rr, p4, p3, p2);
    let got = [
        ("p3(4KiB)", hk::p3_page_of(pg4, idx).start_address().as_u64(), e3),
        ("p3(2MiB)", hk::p3_page_of(pg2, idx).start_address().as_u64(), e3),
        ("p3(1GiB)", hk::p3_page_of(pg1, idx).start_address().as_u64(), e3),
        ("p2(4KiB)", hk::p2_page_of(pg4, idx).start_address().as_u64(), e2),
        ("p2(2MiB)", hk::p2_page_of(pg2, idx).start_address().as_u64(), e2),
        ("p1(4KiB)", hk::p1_page_of(pg4, idx).start_address().as_u64(), e1),
        ("p3ptr", hk::p3_ptr_of(pg4, idx) as u64, e3),
        ("p2ptr", hk::p2_ptr_of(pg2, idx) as u64, e2),
        ("p1ptr", hk::p1_ptr_of(pg4, idx) as u64, e1),
    ];
    for (n, g, e) in got {
        if g != e {
            r.viol(&format!("C20|recursive-table-address|{}|wrong", n), &case, &format!("{:#x} expected {:#x}", g, e));
        }
    }
}

fn addr_sweep(r: &mut Rep, a: &Args) {
    let others = [0u64, 1, 255, 256, 511];
    for ri in 0..512u16 {
        if ri as usize % a.nshards != a.shard {
            continue;
        }
        // each upper index through all 512 values, the others in {0,1,255,256,511}
        for field in 0..3 {
            for v in 0..512u64 {
                for &o1 in &others {
                    for &o2 in &others {
                        let (p4, p3, p2) = match field {
                            0 => (v, o1, o2),
                            1 => (o1, v, o2),
                            _ => (o1, o2, v),
                        };
                        let p1 = (v + o1) % 512;
                        guarded(r, "C20|recursive-table-address|unexpected-panic", || format!("rectab {} {} {} {} {}", ri, p4, p3, p2, p1), |r| addr_case(r, ri, p4, p3, p2, p1));
                    }
                }
            }
        }
    }
}

// ------------------------------------------------------------------ (a) constructor

fn fill_table_at(host: u64, slot: usize, val: u64) {
    unsafe {
        core::ptr::write_bytes(host as *mut u8, 0, FSZ);
        *(host as *mut u64).add(slot) = val;
    }
}

fn verdict(x: Result<RecursivePageTable, InvalidPageTable>) -> u8 {
    match x {
        Ok(_) => 1,
        Err(InvalidPageTable::NotActive) => 2,
        Err(InvalidPageTable::NotRecursive) => 3,
    }
}
/// The address-form half of `new` for ALL 512 recursive indices, including the kernel-half ones whose tables cannot exist in a
/// user process: `new` runs in a forked child on a reference to (R,R,R,R) - or to an address with one index off by one. An address
/// of recursive form must be accepted as far as the first hardware access (reading the slot or the root register: the child dies
/// from the fault); an address of any other form is answered NotRecursive without any access.
pub fn ctor_form_all_indices(r: &mut Rep) {
    use x86_64::structures::paging::PageTable;
    for ri in 0..512u64 {
        let mut cands: Vec<(u64, bool)> = vec![(va4(ri, ri, ri, ri), true)];
        for pos in 0..4 {
            let mut ix = [ri; 4];
            ix[pos] = (ri + 1) % 512;
            cands.push((va4(ix[0], ix[1], ix[2], ix[3]), false));
            if ri % 64 == 0 || ri >= 510 {
                let mut ix = [ri; 4];
                ix[pos] = (ri + 511) % 512;
                cands.push((va4(ix[0], ix[1], ix[2], ix[3]), false));
            }
        }
        for (addr, recursive_form) in cands {
            r.ev(true);
            let outcome: i32 = unsafe {
                let pid = libc::fork();
                if pid == 0 {
                    libc::signal(libc::SIGSEGV, libc::SIG_DFL);
                    libc::signal(libc::SIGBUS, libc::SIG_DFL);
                    libc::signal(libc::SIGILL, libc::SIG_DFL);
                    libc::signal(libc::SIGTRAP, libc::SIG_DFL);
                    let t: &mut PageTable = &mut *(addr as *mut PageTable);
                    let v = verdict(RecursivePageTable::new(t));
                    libc::_exit(10 + v as i32);
                }
                if pid < 0 {
                    -1
                } else {
                    let mut st: i32 = 0;
                    libc::waitpid(pid, &mut st, 0);
                    if libc::WIFSIGNALED(st) { 1000 + libc::WTERMSIG(st) } else if libc::WIFEXITED(st) { libc::WEXITSTATUS(st) } else { -2 }
                }
            };
            let case = format!("ctorform {} {:#x}", ri, addr);
            if outcome < 0 {
                r.viol("C20|RecursivePageTable::new|machinery-fork-failed", &case, "");
                return;
            }
            let mapped_here = outcome >= 10 && outcome < 1000 && recursive_form; // some mapping of this process happens to live there
            if recursive_form && outcome == 13 {
                r.viol("C20|RecursivePageTable::new|recursive-form-address-reported-NotRecursive", &case, "returned NotRecursive without looking at the slot");
            } else if recursive_form && !mapped_here && outcome < 1000 {
                r.viol("C20|RecursivePageTable::new|verdict-without-reading-slot-or-root-register", &case, &format!("exit {}", outcome));
            } else if !recursive_form && outcome != 13 {
                r.viol("C20|RecursivePageTable::new|address-of-non-recursive-form-not-answered-NotRecursive", &case, &format!("outcome {}", outcome));
            }
        }
    }
}

/// construct; switch the root; construct; switch back; construct — kept in a small function of its own so that the optimiser
/// sees the whole sequence at once (what it may or may not carry across the root write is exactly what is being checked)
#[inline(never)]
fn root_switch_sequence(l4: u64, other: x86_64::structures::paging::PhysFrame, own: x86_64::structures::paging::PhysFrame) -> (u8, u8, u8) {
    use x86_64::registers::control::Cr3;
    let a = verdict(RecursivePageTable::new(unsafe { &mut *(l4 as *mut PageTable) }));
    let (_, fl) = Cr3::read();
    unsafe { Cr3::write(other, fl) };
    let b = verdict(RecursivePageTable::new(unsafe { &mut *(l4 as *mut PageTable) }));
    unsafe { Cr3::write(own, fl) };
    let c = verdict(RecursivePageTable::new(unsafe { &mut *(l4 as *mut PageTable) }));
    (a, b, c)
}

pub fn ctor(r: &mut Rep, ri: u16, pbase: u64) {
    simphys::init(View::Recursive(ri), pbase, 0);
    crate::simcpu::init();
    let s = sim();
    let rr = ri as u64;
    let l4_phys = s.phys_of(L4_FRAME);
    let other_phys = s.phys_of(7);
    // a frame address that differs from the level-4 frame only in physical-address bits 48..51
    let twin_phys = l4_phys ^ 0x0004_0000_0000_0000;
    // near-recursive candidate addresses need real memory: anonymous pages
    let mut cands: Vec<(u64, bool)> = vec![(va4(rr, rr, rr, rr), true)];
    for pos in 0..4 {
        for d in [1i64, -1, 2] {
            let mut ix = [rr as i64; 4];
            ix[pos] += d;
            if ix[pos] < 1 || ix[pos] > 254 {
                continue;
            }
            cands.push((va4(ix[0] as u64, ix[1] as u64, ix[2] as u64, ix[3] as u64), false));
        }
    }
    for &(addr, rec) in &cands {
        if !rec {
            let p = unsafe { libc::mmap(addr as *mut libc::c_void, FSZ, libc::PROT_READ | libc::PROT_WRITE, libc::MAP_PRIVATE | libc::MAP_ANONYMOUS | libc::MAP_FIXED_NOREPLACE, -1, 0) };
            if p as u64 != addr {
                continue; // address busy in this process: skip this candidate
            }
        }
        let slot_contents: [(&str, u64); 7] = [
            ("present->same", l4_phys | 3),
            ("present->other", other_phys | 3),
            ("nonpresent->same", l4_phys | 2),
            ("zero", 0),
            ("present+flags->same", l4_phys | 0x8000_0000_0000_0067),
            ("present-only->same", l4_phys | 1),
            ("present->twin(differs-only-in-bits-48..51)", twin_phys | 3),
        ];
        for cr3 in [l4_phys, l4_phys | 0x18, l4_phys | 0xfff, other_phys, other_phys | 0x8, twin_phys] {
            for (sn, sv) in slot_contents {
                // slot index the constructor must look at = p4 index of the address
                let p4i = ((addr >> 39) & 0x1ff) as usize;
              for env in 0..5u8 {
                fill_table_at(addr, p4i, sv);
                // the verdict depends on slot p4i alone: plant entries that point at the loaded root in other slots
                // (a second recursive window, a slot being migrated): above, below, at both ends, everywhere else
                let decoy = (cr3 & 0x000f_ffff_ffff_f000) | 3;
                let others: Vec<usize> = match env {
                    0 => vec![],
                    1 => vec![(p4i + 1) % 512],
                    2 => vec![(p4i + 511) % 512],
                    3 => vec![0, 511].into_iter().filter(|&k| k != p4i).collect(),
                    _ => (0..512).filter(|&k| k != p4i).collect(),
                };
                if !rec && env > 1 {
                    continue;
                }
                for k in others {
                    unsafe { *(addr as *mut u64).add(k) = if env == 1 && rec { l4_phys | 3 } else { decoy } };
                }
                cpu().cr[3] = cr3;
                cpu().clear_events();
                let table: &mut PageTable = unsafe { &mut *(addr as *mut PageTable) };
                let res = run_fault(|| RecursivePageTable::new(table).map(|_| ()));
                r.ev(true);
                r.transitions += 1;
                let case = format!("ctor {} {:#x} addr={:#x} cr3={:#x} slot={} other-slots={}", ri, pbase, addr, cr3, sn, ["empty", "root-above", "root-below", "root-at-0-and-511", "root-everywhere-else"][env as usize]);
                let present = sv & 1 == 1;
                let frame_eq = (sv & 0x000f_ffff_ffff_f000) == (cr3 & 0x000f_ffff_ffff_f000);
                let exp = if !rec { "NotRecursive" } else if !(present && frame_eq) { "NotActive" } else { "Ok" };
                let got = match &res {
                    Ok(Ok(())) => "Ok",
                    Ok(Err(InvalidPageTable::NotRecursive)) => "NotRecursive",
                    Ok(Err(InvalidPageTable::NotActive)) => "NotActive",
                    Err(()) => "panic",
                };
                r.bucket(&format!("{}->{}", if rec { "recursive-address" } else { "near-recursive-address" }, got));
                if got != exp {
                    r.viol(&format!("C20|RecursivePageTable::new|expected={}|got={}", exp, got), &case, "");
                }
              }
            }
        }
        if rec {
            // restore the real recursive level-4 table
            fill_table_at(addr, ri as usize, l4_phys | 3);
        } else {
            unsafe { libc::munmap(addr as *mut libc::c_void, FSZ) };
        }
    }
    // "currently loaded": the root is switched (read CR3, write CR3) and the constructor is called again, all in one function —
    // the verdict follows the register, not an earlier reading of it
    {
        use x86_64::registers::control::Cr3;
        use x86_64::structures::paging::PhysFrame;
        use x86_64::PhysAddr;
        let l4 = s.l4_addr();
        fill_table_at(l4, ri as usize, l4_phys | 3);
        let other = PhysFrame::<Size4KiB>::containing_address(PhysAddr::new(other_phys));
        let own = PhysFrame::<Size4KiB>::containing_address(PhysAddr::new(l4_phys));
        for first_own in [true, false] {
            cpu().cr[3] = if first_own { l4_phys } else { other_phys };
            cpu().clear_events();
            let res = run_fault(|| {
                let mut out = [0u8; 4];
                for (k, o) in out.iter_mut().enumerate() {
                    let table: &mut PageTable = unsafe { &mut *(l4 as *mut PageTable) };
                    *o = match RecursivePageTable::new(table) { Ok(_) => 1, Err(InvalidPageTable::NotActive) => 2, Err(InvalidPageTable::NotRecursive) => 3 };
                    let (cur, fl) = Cr3::read();
                    // switch to the other root after every verdict
                    let next = if cur == own { other } else { own };
                    unsafe { Cr3::write(next, fl) };
                    let _ = k;
                }
                out
            });
            r.ev(true);
            r.transitions += 4;
            let exp = if first_own { [1u8, 2, 1, 2] } else { [2u8, 1, 2, 1] };
            if res != Ok(exp) {
                r.viol("C20|RecursivePageTable::new|verdict-does-not-follow-the-root-register-across-a-switch", &format!("ctorswitch {} {:#x} first_own={}", ri, pbase, first_own), &format!("{:?} expected {:?} (1 = Ok, 2 = NotActive)", res, exp));
            }
        }
        // the same without a loop: read the root, switch it, construct; switch back, construct
        for first_own in [true, false] {
            cpu().cr[3] = if first_own { l4_phys } else { other_phys };
            let res = run_fault(|| {
                let code = |x: Result<RecursivePageTable, InvalidPageTable>| match x { Ok(_) => 1u8, Err(InvalidPageTable::NotActive) => 2, Err(InvalidPageTable::NotRecursive) => 3 };
                let (cur, fl) = Cr3::read();
                let nxt = if cur == own { other } else { own };
                unsafe { Cr3::write(nxt, fl) };
                let a = code(RecursivePageTable::new(unsafe { &mut *(l4 as *mut PageTable) }));
                let (cur2, _) = Cr3::read();
                unsafe { Cr3::write(cur, fl) };
                let b = code(RecursivePageTable::new(unsafe { &mut *(l4 as *mut PageTable) }));
                (a, b, cur2 == nxt)
            });
            r.ev(true);
            let exp = if first_own { (2u8, 1u8, true) } else { (1u8, 2u8, true) };
            if res != Ok(exp) {
                r.viol("C20|RecursivePageTable::new|verdict-does-not-follow-the-root-register-across-a-switch", &format!("ctorswitch {} {:#x} straight first_own={}", ri, pbase, first_own), &format!("{:?} expected {:?} (1 = Ok, 2 = NotActive)", res, exp));
            }
        }
        // the memory seen through the recursive address changes with the root: after the switch the slot read through (R,R,R,R)
        // is the new root's own recursive entry, so the constructor succeeds before and after (the root write is a memory barrier)
        {
            cpu().cr[3] = l4_phys;
            fill_table_at(l4, ri as usize, l4_phys | 3);
            cpu().cr3_write_store = l4 + 8 * ri as u64;
            let res = run_fault(|| root_switch_sequence(std::hint::black_box(l4), other, own));
            cpu().cr3_write_store = 0;
            r.ev(true);
            // and without the window following the root: the table keeps pointing at the first root
            let res2 = run_fault(|| root_switch_sequence(std::hint::black_box(l4), other, own));
            if res2 != Ok((1, 2, 1)) {
                r.viol("C20|RecursivePageTable::new|verdict-does-not-follow-the-root-register-across-a-switch", &format!("ctorswitch {} {:#x} small-function", ri, pbase), &format!("{:?} expected (1, 2, 1) (1 = Ok, 2 = NotActive)", res2));
            }
            if res != Ok((1, 1, 1)) {
                r.viol("C20|RecursivePageTable::new|reads-the-table-as-it-was-before-a-root-switch", &format!("ctorswitch {} {:#x} window-follows-root", ri, pbase), &format!("{:?} expected (1, 1, 1) (1 = Ok, 2 = NotActive)", res));
            }
            fill_table_at(l4, ri as usize, l4_phys | 3);
        }
        cpu().cr[3] = l4_phys;
    }
    // the two reports say what they mean when rendered for a human ("reports 'not recursive' and 'not active' respectively")
    {
        r.ev(true);
        let (a, b) = (format!("{}", InvalidPageTable::NotRecursive).to_lowercase(), format!("{}", InvalidPageTable::NotActive).to_lowercase());
        if !a.contains("recursive") || a.contains("active") || !b.contains("active") || b.contains("recursive") {
            r.viol("C20|InvalidPageTable|Display-text-does-not-say-which-of-the-two-conditions-failed", "ctordisplay", &format!("NotRecursive: {:?}; NotActive: {:?}", a, b));
        }
    }
    // the index it then uses: the first window address dereferenced for a page with p4 = 3 must be (R,R,R,3)
    let l4 = s.l4_addr();
    unsafe {
        *(l4 as *mut u64).add(3) = s.phys_of(9) | 3; // a level-3 table (all zero)
    }
    s.zero(9);
    s.set_table(9, true);
    s.set_table(L4_FRAME, true);
    cpu().cr[3] = l4_phys;
    let table: &mut PageTable = unsafe { &mut *(l4 as *mut PageTable) };
    s.begin_call();
    let res = run_fault(|| {
        let m = RecursivePageTable::new(table).ok()?;
        let _ = m.translate(VirtAddr::new(va4(3, 5, 7, 9)));
        Some(())
    });
    let first = if s.nwin > 0 { s.win_pages[0] } else { 0 };
    s.end_call();
    r.ev(true);
    if res != Ok(Some(())) || first != va4(rr, rr, rr, 3) {
        r.viol("C20|RecursivePageTable::new|uses-another-recursive-index", &format!("ctorindex {}", ri), &format!("first window access {:#x}, expected {:#x}; {:?}", first, va4(rr, rr, rr, 3), res));
    }
}

pub fn run(a: &Args) {
    let mut r = Rep::new("C20", "recursive");
    if let Some(c) = &a.replay {
        let t: Vec<&str> = c.split_whitespace().collect();
        match t[0] {
            "ctorform" => ctor_form_all_indices(&mut r),
            "rectab" => addr_case(&mut r, t[1].parse().unwrap(), t[2].parse().unwrap(), t[3].parse().unwrap(), t[4].parse().unwrap(), t[5].parse().unwrap()),
            _ => ctor(&mut r, t[1].parse().unwrap(), t.get(2).map(|x| u64::from_str_radix(x.trim_start_matches("0x"), 16).unwrap()).unwrap_or(0)),
        }
        r.emit();
        return;
    }
    if a.extra.first().map(|s| s.as_str()) == Some("ctor") {
        let ri: u16 = a.extra[1].parse().unwrap();
        let pbase: u64 = a.extra.get(2).map(|x| u64::from_str_radix(x.trim_start_matches("0x"), 16).unwrap()).unwrap_or(0);
        guarded(&mut r, "C20|RecursivePageTable::new|unexpected-panic", || format!("ctor {} {:#x}", ri, pbase), |r| ctor(r, ri, pbase));
        r.part = format!("constructor[R={}]", ri);
        r.sample(format!("ctor {} addr=(R,R,R,R+1) cr3=level-4 frame slot=present->same -> NotRecursive", ri));
    } else {
        addr_sweep(&mut r, a);
        if a.shard == 1 % a.nshards {
            guarded(&mut r, "C20|RecursivePageTable::new|unexpected-panic", || "ctorform".into(), |r| ctor_form_all_indices(r));
        }
        r.part = "table-addresses".into();
        r.exhaustive = true;
        r.sample("rectab 511 256 0 511 1 -> p2 table page = sext(511<<39 | 511<<30 | 256<<21 | 0<<12)".into());
        r.note("all 512 recursive indices x each upper page index through all 512 values (others in {0,1,255,256,511}) x 3 page sizes through the verif_hooks accessors");
    }
    r.nontrivial = r.evals;
    r.states = r.evals;
    r.emit();
}
