//! C13 — set_general_handler installs, per vector, a stub that reports that vector.
use crate::arch::*;
use crate::c12::{decode_gate, native_cs, table_bytes, Gate};
use crate::out::*;
use crate::Args;
use std::io::{Read, Write};
use std::os::unix::io::FromRawFd;
use x86_64::set_general_handler;
use x86_64::structures::idt::{InterruptDescriptorTable, InterruptStackFrame};
use x86_64::{PrivilegeLevel, VirtAddr};

// ------------------------------------------------------------------ (a) installation

fn gh_noop(_f: InterruptStackFrame, _i: u8, _e: Option<u64>) {}
extern "x86-interrupt" fn sentinel(_f: InterruptStackFrame) {}

fn prefilled() -> InterruptDescriptorTable {
    let mut t = InterruptDescriptorTable::new();
    let s = VirtAddr::new(sentinel as extern "x86-interrupt" fn(InterruptStackFrame) as usize as u64);
    unsafe {
        macro_rules! f {
            ($($n:ident),*) => { $( t.$n.set_handler_addr(s).set_privilege_level(PrivilegeLevel::Ring3).set_stack_index(3); )* };
        }
        f!(divide_error, debug, non_maskable_interrupt, breakpoint, overflow, bound_range_exceeded, invalid_opcode, device_not_available,
           double_fault, invalid_tss, segment_not_present, stack_segment_fault, general_protection_fault, page_fault, x87_floating_point,
           alignment_check, machine_check, simd_floating_point, virtualization, cp_protection_exception, hv_injection_exception,
           vmm_communication_exception, security_exception);
        t[9].set_handler_addr(s).set_privilege_level(PrivilegeLevel::Ring3).set_stack_index(3);
        for v in 32..=255u8 {
            t[v].set_handler_addr(s).set_privilege_level(PrivilegeLevel::Ring3).set_stack_index(3);
        }
    }
    t
}

/// one macro expansion per form: calling this twice re-installs the very same stubs
fn do_install(t: &mut InterruptDescriptorTable, lo: u8, hi: u8, form: u8) {
    match form {
        0 => set_general_handler!(t, gh_record, lo..=hi),
        1 => {
            // exclusive form lo..hi+1 is only expressible for hi < 255
            let h1 = hi + 1;
            set_general_handler!(t, gh_record, lo..h1)
        }
        // open-ended and tuple forms (callers pass them only where they denote exactly lo..=hi)
        2 => set_general_handler!(t, gh_record, lo..),
        3 => set_general_handler!(t, gh_record, ..=hi),
        4 => {
            let h1 = hi + 1;
            set_general_handler!(t, gh_record, ..h1)
        }
        5 => set_general_handler!(t, gh_record, ..),
        6 => {
            let l1 = lo - 1;
            set_general_handler!(t, gh_record, (core::ops::Bound::Excluded(l1), core::ops::Bound::Included(hi)))
        }
        7 => set_general_handler!(t, gh_record, (core::ops::Bound::Included(lo), core::ops::Bound::<u8>::Unbounded)),
        8 => {
            let h1 = hi + 1;
            set_general_handler!(t, gh_record, (core::ops::Bound::<u8>::Unbounded, core::ops::Bound::Excluded(h1)))
        }
        _ => unreachable!(),
    }
}

pub fn install_case(r: &mut Rep, lo: u8, hi: u8, pre: bool, form: u8) {
    install_case_mode(r, lo, hi, pre as u8, form)
}
/// start table: 0 fresh, 1 prefilled with another handler and non-default options, 2 the same installation done before and every
/// gate's options changed since (not present, trap gate, ring 3, IST 5, another code selector): a re-installation must still
/// produce the default present gates
pub fn install_case_mode(r: &mut Rep, lo: u8, hi: u8, start: u8, form: u8) {
    let mut t = if start == 1 { prefilled() } else { InterruptDescriptorTable::new() };
    if start == 2 {
        do_install(&mut t, 0, 255, 5);
        do_install(&mut t, lo, hi, form);
        let p = &mut t as *mut InterruptDescriptorTable as *mut u8;
        for v in 0..256usize {
            unsafe {
                let g = p.add(16 * v);
                if *g.add(5) & 0x80 != 0 {
                    *g.add(2) = 0x34;
                    *g.add(3) = 0x12;
                    *g.add(4) = 5;
                    *g.add(5) = 0x6f; // not present, DPL 3, trap gate
                }
            }
        }
    }
    let pre = start == 1;
    let before = table_bytes(&t);
    do_install(&mut t, lo, hi, form);
    let after = table_bytes(&t);
    let cs = native_cs();
    r.ev(lo < 32);
    let case = format!("install {} {} {} {}", lo, hi, if start == 2 { "reinstall".to_string() } else { pre.to_string() }, form);
    let mut offsets: Vec<u64> = Vec::new();
    for v in 0..=255u8 {
        let b: &[u8; 16] = before[16 * v as usize..16 * v as usize + 16].try_into().unwrap();
        let a: &[u8; 16] = after[16 * v as usize..16 * v as usize + 16].try_into().unwrap();
        let in_range = v >= lo && v <= hi && !RESERVED_VECTORS.contains(&v);
        if !in_range {
            if a != b {
                r.viol("C13|install|entry-outside-range-or-reserved-was-modified", &case, &format!("vector {}", v));
            }
        } else {
            let g = decode_gate(a);
            let ok = g.p && g.typ == 0xE && g.dpl == 0 && g.ist == 0 && g.selector == cs && g.zero1 == 0 && g.zero2 == 0 && g.reserved == 0 && g.offset != 0 && crate::b64::is_canon(g.offset);
            if !ok {
                r.viol("C13|install|vector-in-range-not-made-present-with-a-stub", &case, &format!("vector {} {:x?}", v, g));
            }
            offsets.push(g.offset);
        }
    }
    let n = offsets.len();
    offsets.sort_unstable();
    offsets.dedup();
    if offsets.len() != n {
        r.viol("C13|install|two-vectors-share-one-stub", &case, "");
    }
}

/// the gate format for the same stubs placed in the higher half (kernels are usually linked there): every installed stub address,
/// moved to 0xffff_8000_.. / 0xffff_ffff_8..., must be stored with all 64 offset bits
fn high_half_gates(r: &mut Rep) {
    use x86_64::structures::idt::{Entry, HandlerFunc};
    let mut t = InterruptDescriptorTable::new();
    set_general_handler!(&mut t, gh_record);
    let b = table_bytes(&t);
    for v in 0..=255u8 {
        let g = decode_gate(b[16 * v as usize..16 * v as usize + 16].try_into().unwrap());
        if !g.p {
            continue;
        }
        for hi in [0xffff_8000_0000_0000u64, 0xffff_ffff_8000_0000] {
            r.ev(true);
            let a = hi | (g.offset & 0x7fff_ffff);
            let mut e: Entry<HandlerFunc> = Entry::missing();
            unsafe { e.set_handler_addr(VirtAddr::new(a)) };
            let gg = decode_gate(&crate::c12::gate_bytes(&e));
            if gg.offset != a || !gg.p || gg.reserved != 0 {
                r.viol("C13|install|gate-for-a-higher-half-stub-does-not-hold-its-64-bit-address", &format!("highgate {} {:#x}", v, a), &format!("{:x?}", gg));
            }
        }
    }
}

/// every way of writing an EMPTY range: nothing is made present, nothing is modified (fresh and prefilled tables)
pub fn install_empty(r: &mut Rep, a: u8, b: u8, form: u8, pre: bool) {
    use core::ops::Bound::*;
    let mut t = if pre { prefilled() } else { InterruptDescriptorTable::new() };
    let before = table_bytes(&t);
    // callers guarantee that the form denotes the empty set for (a, b)
    match form {
        0 => set_general_handler!(&mut t, gh_record, a..b),                          // b <= a
        1 => set_general_handler!(&mut t, gh_record, a..=b),                         // b < a
        2 => set_general_handler!(&mut t, gh_record, ..b),                           // b == 0
        3 => set_general_handler!(&mut t, gh_record, (Excluded(a), Included(b))),    // b <= a
        4 => set_general_handler!(&mut t, gh_record, (Excluded(a), Excluded(b))),    // b <= a + 1
        5 => set_general_handler!(&mut t, gh_record, (Included(a), Excluded(b))),    // b <= a
        6 => set_general_handler!(&mut t, gh_record, (Excluded(a), Unbounded::<u8>)),// a == 255
        7 => set_general_handler!(&mut t, gh_record, (Unbounded::<u8>, Excluded(b))),// b == 0
        _ => unreachable!(),
    }
    r.ev(true);
    if table_bytes(&t) != before {
        let after = table_bytes(&t);
        let v = (0..256).find(|&v| after[16 * v..16 * v + 16] != before[16 * v..16 * v + 16]).unwrap();
        r.viol("C13|install|empty-range-modifies-the-table", &format!("installempty {} {} {} {}", a, b, form, pre), &format!("vector {} changed", v));
    }
}

/// installations performed while different code segments are current (the CS register is emulated in step mode): every gate a
/// call installs names the code segment that is current during THAT call, however often and under whichever CS the program
/// installed gates before
fn install_under_changing_cs(r: &mut Rep) {
    use crate::simcpu::{cpu, run_stepped};
    crate::simcpu::init();
    let mut t = InterruptDescriptorTable::new();
    for (step, (cs, lo, hi)) in [(0x28u16, 0u8, 31u8), (0x08, 32, 47), (0x08, 0, 31), (0x33, 100, 103), (0x10, 14, 14), (0x0c, 48, 50), (0x27, 8, 8), (0xffff, 254, 255), (0x04, 13, 13), (0x08, 48, 50)].into_iter().enumerate() {
        cpu().sel[1] = cs;
        cpu().clear_events();
        let res = run_stepped(|| do_install(&mut t, lo, hi, 0));
        r.ev(true);
        r.transitions += cpu().evs().len() as u64;
        let b = table_bytes(&t);
        for v in lo..=hi {
            if RESERVED_VECTORS.contains(&v) {
                continue;
            }
            let g = decode_gate(b[16 * v as usize..16 * v as usize + 16].try_into().unwrap());
            if res.is_err() || !g.p || g.selector != cs {
                r.viol("C13|install|gate-does-not-name-the-code-segment-current-at-the-time-of-the-installation", &format!("installcs step {} cs={:#x} range {}..={}", step, cs, lo, hi), &format!("vector {} selector {:#x} present {}", v, g.selector, g.p));
                break;
            }
        }
    }
    cpu().sel[1] = native_cs();
}

fn install_forms(r: &mut Rep) {
    // single-index and full-table forms of the macro
    let mut t = InterruptDescriptorTable::new();
    set_general_handler!(&mut t, gh_noop);
    let b = table_bytes(&t);
    for v in 0..=255u8 {
        r.ev(true);
        let g = decode_gate(b[16 * v as usize..16 * v as usize + 16].try_into().unwrap());
        if g.p == RESERVED_VECTORS.contains(&v) {
            r.viol("C13|install|full-table-form-wrong-present-set", &format!("installfull {}", v), "");
        }
    }
    macro_rules! single {
        ($($v:literal),*) => { $( {
            let mut t = InterruptDescriptorTable::new();
            set_general_handler!(&mut t, gh_noop, $v);
            let b = table_bytes(&t);
            for v in 0..=255u8 {
                let g = decode_gate(b[16 * v as usize..16 * v as usize + 16].try_into().unwrap());
                if g.p != (v == $v && !RESERVED_VECTORS.contains(&v)) {
                    r.viol("C13|install|single-index-form-wrong-present-set", &format!("installsingle {} {}", $v, v), "");
                }
            }
            r.ev(true);
        } )* };
    }
    single!(0, 1, 8, 9, 14, 15, 18, 21, 22, 28, 30, 31, 32, 128, 255);
    // the macro arguments are ordinary expressions: each is evaluated exactly once (a table taken from a pool, a range
    // handed out by a vector allocator), and the one table / one range they yield is what gets installed
    for form in 0..3u8 {
        r.ev(true);
        let mut tabs: Vec<InterruptDescriptorTable> = (0..4).map(|_| InterruptDescriptorTable::new()).collect();
        let (nt, nr) = (core::cell::Cell::new(0usize), core::cell::Cell::new(0usize));
        fn pick<'a>(tabs: &'a mut [InterruptDescriptorTable], n: &core::cell::Cell<usize>) -> &'a mut InterruptDescriptorTable {
            n.set(n.get() + 1);
            &mut tabs[(n.get() - 1).min(3)]
        }
        fn alloc(n: &core::cell::Cell<usize>) -> core::ops::RangeInclusive<u8> {
            n.set(n.get() + 1);
            let lo = 32u8.wrapping_add(37u8.wrapping_mul(n.get() as u8 - 1));
            lo..=lo.wrapping_add(3)
        }
        let res = catch(|| match form {
            0 => set_general_handler!(pick(&mut tabs, &nt), gh_noop, alloc(&nr)),
            1 => { nr.set(1); set_general_handler!(pick(&mut tabs, &nt), gh_noop) }
            _ => { nr.set(1); set_general_handler!(pick(&mut tabs, &nt), gh_noop, 33) }
        });
        let case = format!("installonce {}", form);
        let (nt, nr) = (nt.get(), nr.get());
        if res.is_err() || nt != 1 || nr != 1 {
            r.viol("C13|install|macro-evaluates-an-argument-expression-more-or-less-than-once", &case, &format!("table expression {}x, range expression {}x, panic {}", nt, nr, res.is_err()));
        }
        for (ti, t) in tabs.iter().enumerate() {
            let b = table_bytes(t);
            for v in 0..=255u8 {
                let g = decode_gate(b[16 * v as usize..16 * v as usize + 16].try_into().unwrap());
                let want = ti == 0 && !RESERVED_VECTORS.contains(&v) && match form { 0 => (32..=35).contains(&v), 1 => true, _ => v == 33 };
                if g.p != want {
                    r.viol("C13|install|with-side-effecting-argument-expressions-wrong-present-set", &case, &format!("table {} vector {} present {}", ti, v, g.p));
                    break;
                }
            }
        }
    }
    // the caller's own items may carry the names the macro family uses internally for ITS items (`IDX`, `handler`): inside the
    // argument expressions they still mean the caller's items, in all three forms of the macro
    {
        #[allow(dead_code)]
        const IDX: u8 = 1;
        fn handler(_f: InterruptStackFrame, _i: u8, _e: Option<u64>) {}
        fn table_of(tabs: &mut [InterruptDescriptorTable], i: u8) -> &mut InterruptDescriptorTable {
            &mut tabs[i as usize]
        }
        for form in 0..3u8 {
            r.ev(true);
            let mut tabs: Vec<InterruptDescriptorTable> = (0..4).map(|_| InterruptDescriptorTable::new()).collect();
            let res = catch(std::panic::AssertUnwindSafe(|| match form {
                0 => set_general_handler!(table_of(&mut tabs, IDX), handler, (IDX + 39)..=(IDX + 41)),
                1 => set_general_handler!(table_of(&mut tabs, IDX), handler),
                _ => set_general_handler!(table_of(&mut tabs, IDX), handler, 3),
            }));
            let case = format!("installnames {}", form);
            if res.is_err() {
                r.viol("C13|install|panics-when-the-caller-has-items-named-like-the-macro's-own", &case, "");
            }
            for (ti, t) in tabs.iter().enumerate() {
                let b = table_bytes(t);
                for v in 0..=255u8 {
                    let g = decode_gate(b[16 * v as usize..16 * v as usize + 16].try_into().unwrap());
                    let want = ti == 1 && !RESERVED_VECTORS.contains(&v) && match form { 0 => (40..=42).contains(&v), 1 => true, _ => v == 3 };
                    if g.p != want {
                        r.viol("C13|install|argument-expression-naming-a-caller-item-resolves-to-an-item-of-the-macro-(wrong-table-or-vectors)", &case, &format!("table {} vector {} present {}", ti, v, g.p));
                        break;
                    }
                }
            }
        }
    }
}

// ------------------------------------------------------------------ (b) native entry

#[derive(Clone, Copy, Default, Debug)]
#[repr(C)]
struct Obs {
    calls: u64,
    index: u64,
    has_err: u64,
    err: u64,
    rip: u64,
    cs: u64,
    rflags: u64,
    rsp: u64,
    ss: u64,
}
static mut OBS: Obs = Obs { calls: 0, index: 0, has_err: 0, err: 0, rip: 0, cs: 0, rflags: 0, rsp: 0, ss: 0 };
static mut DIVERGE_FD: i32 = -1;

/// The general handler given to the crate. It only forwards to `gh_inner` through an asm block that re-aligns
/// the stack: LLVM's stub for the diverging error-code vector (8) calls the general handler with RSP % 16 == 8
/// (a code-generation property of `extern "x86-interrupt" fn(..) -> !`, harmless on SSE-less kernel targets and not
/// part of C13), which would fault on the first aligned SSE store of an ordinary Rust function.
fn gh_record(f: InterruptStackFrame, i: u8, e: Option<u64>) {
    let (has, val) = match e {
        Some(v) => (1u64, v),
        None => (0u64, 0u64),
    };
    let fp = &f as *const InterruptStackFrame as u64;
    unsafe {
        core::arch::asm!(
            "mov r12, rsp",
            "and rsp, -16",
            "call {inner}",
            "mov rsp, r12",
            inner = sym gh_inner,
            in("rdi") fp, in("rsi") i as u64, in("rdx") has, in("rcx") val,
            out("r12") _,
            clobber_abi("C"),
        );
    }
}

extern "C" fn gh_inner(fp: *const InterruptStackFrame, i: u64, has: u64, val: u64) {
    unsafe {
        let f = &*fp;
        OBS.calls += 1;
        OBS.index = i;
        OBS.has_err = has;
        OBS.err = val;
        OBS.rip = f.instruction_pointer.as_u64();
        OBS.cs = f.code_segment.0 as u64;
        OBS.rflags = f.cpu_flags.bits();
        OBS.rsp = f.stack_pointer.as_u64();
        OBS.ss = f.stack_segment.0 as u64;
        if DIVERGE_FD >= 0 {
            // diverging vectors: report and leave before the stub panics
            let o = OBS;
            let line = format!("D {} {} {} {} {:#x} {:#x} {:#x} {:#x} {:#x}\n", o.calls, o.index, o.has_err, o.err, o.rip, o.cs, o.rflags, o.rsp, o.ss);
            libc::write(DIVERGE_FD, line.as_ptr() as *const libc::c_void, line.len());
            libc::_exit(0);
        }
    }
}

#[derive(Default, Debug)]
struct EnterResult {
    label: u64,
    rsp_before: u64,
    rsp_after: u64,
    flags_pushed: u64,
    regs_ok: bool,
}

/// Enter `handler` as the CPU would for an interrupt in 64-bit mode: align RSP, push SS, RSP, RFLAGS, CS, RIP [, error code], jump.
/// Returns after the stub's iretq.
#[inline(never)]
unsafe fn enter(handler: u64, err: Option<u64>) -> EnterResult {
    let mut res = EnterResult::default();
    let cs = native_cs() as u64;
    let ss: u64;
    core::arch::asm!("mov {0:r}, ss", out(reg) ss, options(nomem, nostack, preserves_flags));
    let ss = ss & 0xffff;
    let (has_err, errv) = (err.is_some() as u64, err.unwrap_or(0));
    // sentinels in caller-saved registers: an x86-interrupt stub must preserve every register
    let (mut a, mut c, mut d, mut si, mut di, mut r8, mut r9, mut r10, mut r11): (u64, u64, u64, u64, u64, u64, u64, u64, u64) =
        (handler, 0xc0c0_0001, 0xd0d0_0002, has_err, errv, 0x8080_0005, 0x9090_0006, cs, ss);
    let label: u64;
    let rsp_before: u64;
    let rsp_after: u64;
    let flags: u64;
    core::arch::asm!(
        "mov r12, rsp",
        "and rsp, -16",
        "push r11",            // SS
        "push r12",            // RSP to return to
        "pushfq",              // RFLAGS
        "mov r13, [rsp]",
        "push r10",            // CS
        "lea r14, [rip + 3f]",
        "push r14",            // RIP
        "test rsi, rsi",
        "jz 2f",
        "push rdi",            // error code
        "2:",
        "mov rsi, 0x51510003",
        "mov rdi, 0x71710004",
        "mov r10, 0xa0a00007",
        "mov r11, 0xb0b00008",
        "jmp rax",
        "3:",
        "mov r15, rsp",
        inout("rax") a, inout("rcx") c, inout("rdx") d, inout("rsi") si, inout("rdi") di,
        inout("r8") r8, inout("r9") r9, inout("r10") r10, inout("r11") r11,
        out("r12") rsp_before, out("r13") flags, out("r14") label, out("r15") rsp_after,
    );
    res.label = label;
    res.rsp_before = rsp_before;
    res.rsp_after = rsp_after;
    res.flags_pushed = flags;
    res.regs_ok = a == handler && c == 0xc0c0_0001 && d == 0xd0d0_0002 && si == 0x5151_0003 && di == 0x7171_0004 && r8 == 0x8080_0005 && r9 == 0x9090_0006 && r10 == 0xa0a0_0007 && r11 == 0xb0b0_0008;
    let _ = (&mut a, &mut c, &mut d, &mut si, &mut di, &mut r8, &mut r9, &mut r10, &mut r11);
    res
}

const ERRS: [u64; 6] = [0, 1, u64::MAX, 0x0123_4567_89ab_cdef, 0x8000_0000_0000_0000, 0xffff];

/// Runs in a forked child: enter vector v with every error-code value; one output line per case.
fn child_vector(v: u8, fd: i32) -> ! {
    let mut t = InterruptDescriptorTable::new();
    set_general_handler!(&mut t, gh_record);
    let b = table_bytes(&t);
    let g = decode_gate(b[16 * v as usize..16 * v as usize + 16].try_into().unwrap());
    let mut out = unsafe { std::fs::File::from_raw_fd(fd) };
    if !g.p {
        let _ = writeln!(out, "N {}", v);
        unsafe { libc::_exit(0) };
    }
    let has_err = ERR_VECTORS.contains(&v);
    let diverging = v == 8 || v == 18;
    let errs: &[u64] = if has_err { &ERRS } else { &ERRS[..2] }; // value irrelevant without error code: run twice
    for &e in errs {
        unsafe {
            OBS = Obs::default();
            if diverging {
                // each diverging case needs its own process: fork again
                let pid = libc::fork();
                if pid == 0 {
                    DIVERGE_FD = fd;
                    let _ = enter(g.offset, has_err.then_some(e));
                    libc::_exit(9); // must not return
                }
                let mut st = 0;
                libc::waitpid(pid, &mut st, 0);
                let _ = writeln!(out, "X {} {:#x} {}", v, e, st);
                continue;
            }
            let res = enter(g.offset, has_err.then_some(e));
            let o = OBS;
            let _ = writeln!(
                out,
                "R {} {:#x} {} {} {} {:#x} {:#x} {:#x} {:#x} {:#x} {:#x} | {:#x} {:#x} {:#x} {:#x} {}",
                v, e, o.calls, o.index, o.has_err, o.err, o.rip, o.cs, o.rflags, o.rsp, o.ss, res.label, res.rsp_before, res.rsp_after, res.flags_pushed, res.regs_ok
            );
        }
    }
    let _ = out.flush();
    unsafe { libc::_exit(0) }
}

pub fn entry_vector(r: &mut Rep, v: u8) {
    let mut fds = [0i32; 2];
    unsafe { libc::pipe(fds.as_mut_ptr()) };
    let pid = unsafe { libc::fork() };
    if pid == 0 {
        unsafe { libc::close(fds[0]) };
        child_vector(v, fds[1]);
    }
    unsafe { libc::close(fds[1]) };
    let mut s = String::new();
    let mut f = unsafe { std::fs::File::from_raw_fd(fds[0]) };
    let _ = f.read_to_string(&mut s);
    let mut st = 0;
    unsafe { libc::waitpid(pid, &mut st, 0) };
    let case = format!("entry {}", v);
    let has_err = ERR_VECTORS.contains(&v);
    let cs = native_cs() as u64;
    if !(libc::WIFEXITED(st) && libc::WEXITSTATUS(st) == 0) {
        r.viol("C13|entry|entering-the-installed-stub-crashed", &case, &format!("child status {:#x}; output so far: {}", st, s.replace('\n', " / ")));
        return;
    }
    let h = |x: &str| u64::from_str_radix(x.trim_start_matches("0x"), 16).unwrap_or(u64::MAX);
    let mut cases = 0;
    let mut last_d_err: Option<u64> = None;
    for line in s.lines() {
        let t: Vec<&str> = line.split_whitespace().collect();
        match t[0] {
            "N" => {
                if !RESERVED_VECTORS.contains(&v) {
                    r.viol("C13|entry|non-reserved-vector-has-no-stub", &case, "");
                }
                r.ev(false);
                return;
            }
            "R" => {
                cases += 1;
                r.ev(true);
                let e = h(t[2]);
                let (calls, idx, he, err) = (h(t[3]), t[4].parse::<u64>().unwrap(), t[5].parse::<u64>().unwrap(), h(t[6]));
                let (rip, ocs, ofl, orsp, _oss) = (h(t[7]), h(t[8]), h(t[9]), h(t[10]), h(t[11]));
                let (label, rsp_b, rsp_a, fl, regs_ok) = (h(t[13]), h(t[14]), h(t[15]), h(t[16]), t[17] == "true");
                if calls != 1 {
                    r.viol("C13|entry|general-handler-not-called-exactly-once", &case, line);
                }
                if idx != v as u64 {
                    r.viol("C13|entry|wrong-vector-index-reported", &case, line);
                }
                if (he == 1) != has_err || (has_err && err != e) {
                    r.viol("C13|entry|error-code-presence-or-value-wrong", &case, line);
                }
                if rip != label || ocs != cs || ofl != fl || orsp != rsp_b {
                    r.viol("C13|entry|frame-contents-not-as-pushed", &case, line);
                }
                if rsp_a != rsp_b || !regs_ok {
                    r.viol("C13|entry|does-not-resume-with-stack-and-registers-intact", &case, line);
                }
            }
            "X" => {
                cases += 1;
                r.ev(true);
                // the grandchild's observation line precedes this one
                let e = h(t[2]);
                if has_err && last_d_err != Some(e) {
                    r.viol("C13|entry|diverging-vector-wrong-observation", &case, &format!("error code {:#x} not observed ({:x?})", e, last_d_err));
                }
                last_d_err = None;
            }
            "D" => {
                let (calls, idx, he, err) = (h(t[1]), t[2].parse::<u64>().unwrap(), t[3].parse::<u64>().unwrap(), t[4].parse::<u64>().unwrap_or(u64::MAX));
                if calls != 1 || idx != v as u64 || (he == 1) != has_err {
                    r.viol("C13|entry|diverging-vector-wrong-observation", &case, line);
                }
                last_d_err = Some(err);
                r.bucket("diverging-observed");
            }
            _ => {}
        }
    }
    if (v == 8 || v == 18) && s.lines().filter(|l| l.starts_with("D ")).count() != cases {
        r.viol("C13|entry|diverging-vector-handler-not-called-or-returned", &case, &s.replace('\n', " / "));
    }
    if cases == 0 {
        r.viol("C13|entry|no-observation", &case, &s);
    }
}

pub fn run(a: &Args) {
    let mut r = Rep::new("C13", "general-handler");
    if let Some(c) = &a.replay {
        let t: Vec<&str> = c.split_whitespace().collect();
        match t[0] {
            "install" => install_case_mode(&mut r, t[1].parse().unwrap(), t[2].parse().unwrap(), match t[3] { "true" => 1, "reinstall" => 2, _ => 0 }, t[4].parse().unwrap()),
            "entry" => entry_vector(&mut r, t[1].parse().unwrap()),
            "iretq" => crate::c13iret::run(&mut r, a),
            "entryframe" => { crate::simcpu::init(); crate::c13iret::entry_frames(&mut r, &Args { prop: "C13".into(), tier: "thorough".into(), shard: 0, nshards: 1, replay: None, extra: vec![] }) }
            "highgate" => high_half_gates(&mut r),
            "installonce" | "installnames" => install_forms(&mut r),
            "installcs" => install_under_changing_cs(&mut r),
            "installempty" => install_empty(&mut r, t[1].parse().unwrap(), t[2].parse().unwrap(), t[3].parse().unwrap(), t[4] == "true"),
            _ => install_forms(&mut r),
        }
        r.emit();
        return;
    }
    let mut n = 0usize;
    for lo in 0..=255u8 {
        for hi in lo..=255u8 {
            n += 1;
            if n % a.nshards != a.shard {
                continue;
            }
            guarded(&mut r, "C13|install|unexpected-panic", || format!("install {} {} false 0", lo, hi), |r| install_case(r, lo, hi, false, 0));
            // every other RangeBounds form that denotes exactly lo..=hi
            let mut forms: Vec<u8> = vec![];
            if hi == 255 { forms.push(2); forms.push(7); }
            if lo == 0 { forms.push(3); if hi < 255 { forms.push(4); forms.push(8); } }
            if lo == 0 && hi == 255 { forms.push(5); }
            if lo >= 1 && (lo % 16 == 0 || lo < 40 || hi == 255) { forms.push(6); }
            for f in forms {
                guarded(&mut r, "C13|install|unexpected-panic", || format!("install {} {} false {}", lo, hi, f), |r| install_case(r, lo, hi, false, f));
            }
            // prefilled table and exclusive-range form on a thinner grid (every pair with lo or hi on a boundary, plus a stride)
            let boundary = |x: u8| matches!(x, 0 | 7 | 8 | 9 | 14 | 15 | 16 | 18 | 21 | 22 | 27 | 28 | 30 | 31 | 32 | 33 | 254 | 255);
            if boundary(lo) || boundary(hi) || a.thorough() {
                guarded(&mut r, "C13|install|unexpected-panic", || format!("install {} {} true 0", lo, hi), |r| install_case(r, lo, hi, true, 0));
                guarded(&mut r, "C13|install|unexpected-panic", || format!("install {} {} reinstall 0", lo, hi), |r| install_case_mode(r, lo, hi, 2, 0));
                if hi < 255 {
                    guarded(&mut r, "C13|install|unexpected-panic", || format!("install {} {} false 1", lo, hi), |r| install_case(r, lo, hi, false, 1));
                }
            }
        }
    }
    // empty ranges in every spelling: all (a, b) with b <= a on a coarse grid plus every pair touching 0, 31/32 or 255
    {
        let mut n = 0usize;
        for av in 0..=255u8 {
            for bv in 0..=av {
                let edge = |x: u8| matches!(x, 0 | 1 | 8 | 15 | 16 | 31 | 32 | 33 | 254 | 255);
                if !(edge(av) || edge(bv) || av == bv || av == bv + 1 || (av % 17 == 3 && bv % 13 == 5) || a.thorough()) {
                    continue;
                }
                n += 1;
                if n % a.nshards != a.shard {
                    continue;
                }
                for pre in [false, true] {
                    let mut forms: Vec<u8> = vec![0, 3, 5];
                    if bv < av { forms.push(1); }
                    forms.push(4);
                    if bv == 0 { forms.push(2); forms.push(7); }
                    if av == 255 { forms.push(6); }
                    for f in forms {
                        guarded(&mut r, "C13|install|unexpected-panic", || format!("installempty {} {} {} {}", av, bv, f, pre), |r| install_empty(r, av, bv, f, pre));
                    }
                    // (Excluded(a), Excluded(a+1)) is empty too
                    if av < 255 && bv == av {
                        guarded(&mut r, "C13|install|unexpected-panic", || format!("installempty {} {} 4 {}", av, av + 1, pre), |r| install_empty(r, av, av + 1, 4, pre));
                    }
                }
            }
        }
    }
    if a.shard == 1 % a.nshards {
        guarded(&mut r, "C13|install|unexpected-panic", || "installcs".into(), |r| install_under_changing_cs(r));
    }
    if a.shard == 0 {
        install_forms(&mut r);
        guarded(&mut r, "C13|install|unexpected-panic", || "highgate".into(), |r| high_half_gates(r));
    }
    for v in 0..=255u8 {
        if v as usize % a.nshards == a.shard {
            entry_vector(&mut r, v);
        }
    }
    if a.shard == 0 {
        crate::c13iret::run(&mut r, a);
    }
    crate::simcpu::init();
    // the frames sweep enters the stubs inside this process: a canary child runs it first, so that a stub that brings the process
    // down (a panic inside an interrupt stub cannot unwind) is reported as what it is instead of ending the check
    let canary_ok = unsafe {
        let pid = libc::fork();
        if pid == 0 {
            let mut scratch = Rep::new("C13", "canary");
            crate::c13iret::entry_frames(&mut scratch, a);
            libc::_exit(0);
        }
        let mut st = 0;
        pid > 0 && libc::waitpid(pid, &mut st, 0) == pid && libc::WIFEXITED(st) && libc::WEXITSTATUS(st) == 0
    };
    if canary_ok {
        guarded(&mut r, "C13|entry(arbitrary frame)|unexpected-panic", || "entryframe".into(), |r| crate::c13iret::entry_frames(r, a));
    } else {
        r.ev(true);
        r.viol("C13|entry(arbitrary frame)|entering-an-installed-stub-with-some-frame-brings-the-process-down-(handler-not-called-exactly-once)", "entryframe", "the canary child that enters every stub with the frame alphabet did not finish");
    }
    r.exhaustive = true;
    r.sample("install 14 40 true 0".into());
    r.sample("entry 14 (error code 0x123456789abcdef pushed below the frame)".into());
    r.note("all 32896 (lo<=hi) pairs on a fresh IDT; prefilled table and exclusive form for every pair with a boundary endpoint (all pairs in thorough); all 256 vectors entered natively (CS/SS of this process) with 6 error-code values; vectors 8 and 18 observed in forked children");
    r.emit();
}
