//! Explorer + oracles for the mapper search (E1 specialised to the page-table system).
#![allow(static_mut_refs)]
use crate::mp::*;
use crate::out::*;
use crate::r1::*;
use crate::simphys::{self, sim, View, FSZ, L4_FRAME, NF};
use crate::Args;
use std::collections::hash_map::DefaultHasher;
use std::collections::{BTreeMap, HashSet};
use std::hash::{Hash, Hasher};
use x86_64::structures::paging::{Mapper, Page, Size1GiB, Size2MiB, Size4KiB, Translate};
use x86_64::VirtAddr;

#[derive(Clone)]
pub struct State {
    pub ents: Vec<(u8, u16, u64)>, // non-zero slots of all table frames (frame, slot, value), sorted
    pub tables: u64,               // bitmap of frames that are page tables (incl. level 4)
    pub free: Vec<u16>,            // allocator pool in order
    pub r1: R1,
    pub dev: u8,
    pub hist: Vec<u16>,
    /// the state holds (or held) a non-zero entry without PRESENT: outside the quantified domain, reduced oracle
    pub ood: bool,
}
impl State {
    fn key(&self) -> u128 {
        let mut h1 = DefaultHasher::new();
        self.ents.hash(&mut h1);
        self.tables.hash(&mut h1);
        self.free.hash(&mut h1);
        self.dev.hash(&mut h1);
        self.ood.hash(&mut h1);
        let a = h1.finish();
        let mut h2 = DefaultHasher::new();
        0x9e37_79b9u32.hash(&mut h2);
        self.free.hash(&mut h2);
        self.dev.hash(&mut h2);
        self.tables.hash(&mut h2);
        self.ents.hash(&mut h2);
        ((a as u128) << 64) | h2.finish() as u128
    }
    fn r1_key(&self) -> u64 {
        let mut h = DefaultHasher::new();
        self.r1.hash(&mut h);
        h.finish()
    }
}

pub struct Bounds(pub Vec<(u8, u8)>); // union of (max depth, max deviations)
impl Bounds {
    fn allows(&self, depth: u8, dev: u8) -> bool {
        self.0.iter().any(|&(d, k)| depth <= d && dev <= k)
    }
    fn max_depth(&self) -> u8 {
        self.0.iter().map(|x| x.0).max().unwrap_or(0)
    }
}

pub struct Engine {
    pub cfg: Config,
    pub al: Alpha,
    pub acts: Vec<(Act, u8)>,
    pub reps: BTreeMap<&'static str, Rep>,
    pub skip: Option<usize>,
    pub fam: &'static str,
    pub cur_tables: u64,
    pub states_seen: u64,
    /// Some(k): a soak run is in progress and k steps of its cycle have been executed (violations are reported with the
    /// compact history "soak:<k>")
    pub soak_steps: Option<u64>,
}

const PROPS: [&str; 6] = ["C01", "C02", "C09", "C10", "C11", "C20"];

fn sz_name(sz: u8) -> &'static str {
    ["4KiB", "2MiB", "1GiB"][sz as usize]
}

impl Engine {
    pub fn new(cfg: Config) -> Engine {
        let view = match cfg.imp {
            Impl::Offset => View::Linear,
            Impl::Mapped => View::Permuted,
            Impl::Recursive(r) => View::Recursive(r),
        };
        simphys::init(view, cfg.pbase, 0);
        crate::sig::install();
        let al = alphabet(&cfg);
        let acts = actions(&al);
        let mut reps = BTreeMap::new();
        for p in PROPS {
            let mut r = Rep::new(p, &format!("mapper-search[{}]", cfg.name()));
            r.note(&format!("configuration {}", cfg.name()));
            reps.insert(p, r);
        }
        let skip = match cfg.imp {
            Impl::Recursive(r) => Some(r as usize),
            _ => None,
        };
        let fam = match cfg.imp {
            Impl::Recursive(_) => "recursive",
            _ => "mapped/offset",
        };
        Engine { cfg, al, acts, reps, skip, fam, cur_tables: 0, states_seen: 0, soak_steps: None }
    }

    fn viol(&mut self, prop: &'static str, sig: &str, hist: &[u16], ai: Option<usize>, detail: &str) {
        let mut h: Vec<String> = hist.iter().map(|&i| format!("{:?}", self.acts[i as usize].0)).collect();
        if let Some(ai) = ai {
            h.push(format!("{:?}", self.acts[ai].0));
        }
        let mut idx: Vec<String> = hist.iter().map(|i| i.to_string()).collect();
        if let Some(ai) = ai {
            idx.push(ai.to_string());
        }
        let case = match self.soak_steps {
            Some(k) => format!("mapper {} soak:{} # after {} steps of the soak cycle, then {}", self.cfg.to_arg(), k + 1, k, h.last().cloned().unwrap_or_default()),
            None => format!("mapper {} {} # {}", self.cfg.to_arg(), idx.join(","), h.join(" ; ")),
        };
        let sig = format!("{}|{}|{}", prop, sig, self.fam);
        self.reps.get_mut(prop).unwrap().viol(&sig, &case, detail);
    }

    pub fn initial(&mut self) -> State {
        let s = sim();
        for f in 0..NF {
            s.poison(f);
            s.set_table(f, false);
        }
        s.zero(L4_FRAME);
        s.set_table(L4_FRAME, true);
        let mut ents = vec![];
        if let Some(r) = self.skip {
            let v = s.phys_of(L4_FRAME) | P | W;
            s.write(L4_FRAME, r, v);
            ents.push((L4_FRAME as u8, r as u16, v));
        }
        self.cur_tables = 1 << L4_FRAME;
        let free: Vec<u16> = (0..24u16).filter(|&f| f as usize != L4_FRAME).collect();
        State { ents, tables: 1 << L4_FRAME, free, r1: R1::default(), dev: 0, hist: vec![], ood: false }
    }

    fn restore(&mut self, st: &State) {
        let s = sim();
        for f in 0..NF {
            let was = self.cur_tables >> f & 1 == 1;
            let is = st.tables >> f & 1 == 1;
            if is {
                s.zero(f);
                if !s.is_table[f] {
                    s.set_table(f, true);
                }
            } else if was || s.is_table[f] {
                s.poison(f);
                s.set_table(f, false);
            }
        }
        for &(f, slot, v) in &st.ents {
            s.write(f as usize, slot as usize, v);
        }
        self.cur_tables = st.tables;
    }

    fn snapshot(&self, r1: R1, free: Vec<u16>, dev: u8, hist: Vec<u16>) -> State {
        let s = sim();
        let mut ents = vec![];
        let mut tables = 0u64;
        for f in 0..NF {
            if s.is_table[f] {
                tables |= 1 << f;
                for slot in 0..512 {
                    let v = s.read(f, slot);
                    if v != 0 {
                        ents.push((f as u8, slot as u16, v));
                    }
                }
            }
        }
        State { ents, tables, free, r1, dev, hist, ood: false }
    }

    /// R1 along the walk of a page: chars for levels 4..leaf level: T table, E empty, L leaf; stops after the first non-T
    fn situation(r1: &R1, sz: u8, va: u64) -> String {
        let mut s = String::new();
        for level in (leaf_level(sz)..=4).rev() {
            let c = match r1.slot(va, level) {
                Slot::Table(_) => 'T',
                Slot::Empty => 'E',
                Slot::Leaf(..) => 'L',
            };
            s.push(c);
            if c != 'T' {
                break;
            }
        }
        s
    }

    /// predicted outcome class from R1 (Appendix A). None = any Err (doc silent), never Ok.
    fn predict(&self, r1: &R1, act: &Act, sched: u8) -> (Option<Oc>, u32 /*expected allocation requests*/, Vec<u8> /*levels of tables created*/) {
        let (sz, va) = act_page(act, &self.al).unwrap();
        let ll = leaf_level(sz);
        match act {
            Act::Map { .. } | Act::Ident { .. } => {
                let mut req = 0u32;
                let mut created = vec![];
                for level in ((ll + 1)..=4).rev() {
                    match r1.slot(va, level) {
                        Slot::Leaf(..) => return (Some(Oc::ParentHuge), req, created),
                        Slot::Table(_) => {}
                        Slot::Empty => {
                            req += 1;
                            let fail = match sched { 0 => false, 4 => true, k => req == k as u32 };
                            if fail {
                                return (Some(Oc::AllocFailed), req, created);
                            }
                            created.push(level - 1);
                            // everything below is missing too
                        }
                    }
                    if !created.is_empty() && level - 1 > ll {
                        // once a table was created, all deeper slots are empty: continue counting
                        continue;
                    }
                }
                if !created.is_empty() {
                    return (Some(Oc::Ok), req, created);
                }
                match r1.slot(va, ll) {
                    Slot::Empty => (Some(Oc::Ok), req, created),
                    Slot::Leaf(..) => (Some(Oc::AlreadyMapped), req, created),
                    Slot::Table(_) => (None, req, created),
                }
            }
            Act::Unmap { .. } | Act::Update { .. } => {
                for level in ((ll + 1)..=4).rev() {
                    match r1.slot(va, level) {
                        Slot::Leaf(..) => return (Some(Oc::ParentHuge), 0, vec![]),
                        Slot::Empty => return (Some(Oc::NotMapped), 0, vec![]),
                        Slot::Table(_) => {}
                    }
                }
                match r1.slot(va, ll) {
                    Slot::Empty => (Some(Oc::NotMapped), 0, vec![]),
                    Slot::Leaf(..) => (Some(Oc::Ok), 0, vec![]),
                    Slot::Table(_) => (None, 0, vec![]),
                }
            }
            Act::SetP { level, .. } => {
                let level = *level;
                if level <= ll {
                    return (None, 0, vec![]); // that level is the page's own leaf level or below: any Err
                }
                for l in ((level + 1)..=4).rev() {
                    match r1.slot(va, l) {
                        Slot::Leaf(..) => return (Some(Oc::ParentHuge), 0, vec![]),
                        Slot::Empty => return (Some(Oc::NotMapped), 0, vec![]),
                        Slot::Table(_) => {}
                    }
                }
                match r1.slot(va, level) {
                    Slot::Empty => (Some(Oc::NotMapped), 0, vec![]),
                    Slot::Leaf(..) => (Some(Oc::ParentHuge), 0, vec![]),
                    Slot::Table(_) => (Some(Oc::Ok), 0, vec![]),
                }
            }
            _ => unreachable!(),
        }
    }

    fn is_exhausted_map(&self, ai: usize) -> bool {
        matches!(self.acts[ai].0, Act::Map { frame: 0, flags: 0, parent: 0, sched: 4, .. })
    }

    fn reached_by_release(&self, st: &State) -> bool {
        st.hist.last().map_or(false, |&i| matches!(self.acts[i as usize].0, Act::CleanAll | Act::CleanRange { .. }))
    }

    fn op_name(&self, act: &Act) -> String {
        match act {
            Act::Map { page, parent, .. } => format!("{}<{}>", if *parent == 255 { "map_to" } else { "map_to_with_table_flags" }, sz_name(self.al.pages[*page as usize].0)),
            Act::Ident { which, .. } => format!("identity_map<{}>", sz_name(self.al.ident[*which as usize].0)),
            Act::Unmap { page } => format!("unmap<{}>", sz_name(self.al.pages[*page as usize].0)),
            Act::Update { page, .. } => format!("update_flags<{}>", sz_name(self.al.pages[*page as usize].0)),
            Act::SetP { level, page, .. } => format!("set_flags_p{}_entry<{}>", level, sz_name(self.al.pages[*page as usize].0)),
            Act::CleanAll => "clean_up".into(),
            Act::CleanRange { .. } => "clean_up_addr_range".into(),
            Act::IdentHigh { which } => format!("identity_map<{}>", sz_name(IDENT_HIGH[*which as usize].0)),
        }
    }

    /// identity_map of a frame whose address is not a canonical virtual address: no page has that address, so no call history
    /// dictates a mapping for it - the call must not succeed and must leave every translation and every table as it was
    fn step_ident_high(&mut self, st: &State, ai: usize, before: &Tree) -> Option<State> {
        let act = self.acts[ai].0;
        let op = self.op_name(&act);
        let mut ast = AllocState { free: st.free.clone() };
        let out = self.run_call(&act, &mut ast);
        for p in PROPS {
            self.reps.get_mut(p).unwrap().transitions += 1;
        }
        let s = sim();
        let after = walk_all_mode(s, self.skip, false);
        let detail = format!("frame {:#x}: {:?}", match act { Act::IdentHigh { which } => IDENT_HIGH[which as usize].1, _ => 0 }, out.as_ref().map(|o| (o.oc.clone(), o.flush_page)));
        if matches!(&out, Some(o) if o.oc == Oc::Ok) {
            self.viol("C01", &format!("{}|succeeds-for-a-frame-whose-address-is-not-a-virtual-address-(maps-some-other-page)", op), &st.hist, Some(ai), &detail);
            self.viol("C02", &format!("{}|reports-success-for-a-mapping-that-cannot-exist", op), &st.hist, Some(ai), &detail);
        }
        if after.leaves != before.leaves {
            self.viol("C01", &format!("{}|a-call-that-cannot-succeed-changed-what-addresses-translate-to", op), &st.hist, Some(ai), &detail);
            self.viol("C02", &format!("{}|a-call-that-cannot-succeed-changed-a-mapping", op), &st.hist, Some(ai), &detail);
            self.viol("C11", &format!("{}|a-leaf-mapping-changed-by-a-call-that-cannot-succeed", op), &st.hist, Some(ai), &detail);
        }
        if s.nstray > 0 {
            self.viol("C09", &format!("{}|stray-access", op), &st.hist, Some(ai), &detail);
        }
        None
    }

    fn run_call(&mut self, act: &Act, ast: &mut AllocState) -> Option<Outcome> {
        let cfg = self.cfg.clone();
        let al = &self.al;
        let skip = self.skip;
        let s = sim();
        s.begin_call();
        let r = catch(|| on_mapper!(cfg, |m| exec(&mut m, act, al, cfg.policy, ast, skip)));
        s.end_call();
        r.ok()
    }

    /// One transition. Returns the successor state if the transition was clean.
    pub fn step(&mut self, st: &State, ai: usize, tree_before: &Tree) -> Option<State> {
        let (act, cost) = self.acts[ai];
        if matches!(act, Act::IdentHigh { .. }) {
            return if st.ood { None } else { self.step_ident_high(st, ai, tree_before) };
        }
        if st.ood || is_ood_action(&act) {
            return self.step_ood(st, ai, tree_before);
        }
        let op = self.op_name(&act);
        let mut ast = AllocState { free: st.free.clone() };
        let out = self.run_call(&act, &mut ast);
        for p in PROPS {
            self.reps.get_mut(p).unwrap().transitions += 1;
        }
        let s = sim();
        let mut clean = true;
        if let Impl::Recursive(ri) = self.cfg.imp {
            clean &= self.check_window(st, ai, &op, &act, ri as u64);
        }
        // ---- C09: stray accesses
        let nstray = s.nstray;
        if nstray > 0 {
            let x = s.strays[0];
            let what = ["non-table-frame-of-the-window", "physical-memory-outside-the-page-tables", "not-present-window-address", "wild-address"][x.kind as usize];
            let sit = act_page(&act, &self.al).map(|(sz, va)| Self::situation(&st.r1, sz, va)).unwrap_or_default();
            self.viol("C09", &format!("{}|walk={}|{}-of-{}", op, sit, if x.write { "write" } else { "read" }, what), &st.hist, Some(ai),
                      &format!("{} stray access(es); first: host {:#x} phys {:#x} frame {} rip {:#x}", nstray, x.addr, x.phys, x.frame, x.rip));
            clean = false;
        }
        if s.fatal {
            self.viol("C09", &format!("{}|null-or-unbackable-address", op), &st.hist, Some(ai), "");
            return None;
        }
        let out = match out {
            Some(o) => o,
            None => {
                // panic inside the code under test
                let defined = match act {
                    Act::CleanAll | Act::CleanRange { .. } => true,
                    _ => self.predict(&st.r1, &act, 0).0.is_some(),
                };
                if defined {
                    self.viol("C02", &format!("{}|panics-in-a-state-where-the-outcome-is-defined", op), &st.hist, Some(ai), "");
                }
                return None;
            }
        };
        let tree = walk_all(s, self.skip);
        if let Some(r) = self.skip {
            if s.read(L4_FRAME, r) != (s.phys_of(L4_FRAME) | P | W) {
                self.viol("C10", &format!("{}|recursive-slot-modified", op), &st.hist, Some(ai), "");
                clean = false;
            }
        }
        let mut r1 = st.r1.clone();
        match act {
            Act::CleanAll | Act::CleanRange { .. } => {
                self.reps.get_mut("C10").unwrap().bucket(&format!("clean freed {}", out.freed.len()));
                clean &= self.check_clean(st, ai, &op, &out, &tree, &mut r1, tree_before);
            }
            _ => {
                clean &= self.check_op(st, ai, &op, &act, &out, &tree, &mut r1, tree_before);
            }
        }
        if !clean {
            return None;
        }
        let mut hist = st.hist.clone();
        hist.push(ai as u16);
        Some(self.snapshot(r1, ast.free, st.dev + cost, hist))
    }


    /// Transition in / into a state outside the quantified domain (some non-zero entry lacks PRESENT). Only the
    /// representation-level clauses are checked: "unused/empty" means all-zero (C08), so
    ///  * no frame is requested when every entry on the walk is non-zero (C09),
    ///  * clean-up releases only tables that are all-zero and unlinked at that moment (C10, checked in the callback),
    ///  * no stray access, nobody but clean-up releases, (structural) mappings unchanged by clean-up.
    fn step_ood(&mut self, st: &State, ai: usize, before: &Tree) -> Option<State> {
        let (act, cost) = self.acts[ai];
        if matches!(self.cfg.imp, Impl::Recursive(_)) && matches!(act, Act::SetP { flags, .. } if flags == PARENT_OOD) {
            return None; // a non-present parent link makes the recursive window itself fault on real hardware
        }
        if matches!(self.cfg.imp, Impl::Recursive(_)) && st.ood && before.link_flags.values().any(|f| f & P == 0) {
            return None;
        }
        // a level-4 entry with the PS bit (reserved there): the hardware walk itself is undefined below it, so only three things
        // are checked for calls below such an entry, and nothing is explored beyond them: no stray access, "allocation failed"
        // only if the allocator failed, and an error leaves every entry as it was
        let l4_huge: Vec<usize> = (0..512).filter(|&i| Some(i) != self.skip && sim().read(L4_FRAME, i) & (P | HUGE) == (P | HUGE)).collect();
        if !l4_huge.is_empty() {
            if matches!(self.cfg.imp, Impl::Recursive(_)) {
                return None;
            }
            let under = act_page(&act, &self.al).map_or(false, |(_, va)| l4_huge.contains(&idx(va, 4)));
            if !under || matches!(act, Act::CleanAll | Act::CleanRange { .. }) {
                return None;
            }
            let op = self.op_name(&act);
            let snap_before: Vec<Vec<u64>> = (0..NF).filter(|&f| sim().is_table[f]).map(|f| (0..512).map(|k| sim().read(f, k)).collect()).collect();
            let mut ast = AllocState { free: st.free.clone() };
            let out = self.run_call(&act, &mut ast);
            for p in PROPS {
                self.reps.get_mut(p).unwrap().transitions += 1;
            }
            let s = sim();
            if s.nstray > 0 && !s.fatal {
                let x = s.strays[0];
                self.viol("C09", &format!("{}|level-4-entry-with-PS|stray-access", op), &st.hist, Some(ai), &format!("host {:#x} phys {:#x} frame {}", x.addr, x.phys, x.frame));
            }
            if let Some(out) = out {
                if out.oc == Oc::AllocFailed && out.requests as usize == out.given.len() {
                    self.viol("C02", &format!("{}|got=AllocFailed|reports-FrameAllocationFailed-although-no-allocation-failed", op), &st.hist, Some(ai), &format!("{} requests, all served", out.requests));
                }
                if out.oc != Oc::Ok && out.given.is_empty() {
                    let snap_after: Vec<Vec<u64>> = (0..NF).filter(|&f| sim().is_table[f]).map(|f| (0..512).map(|k| sim().read(f, k)).collect()).collect();
                    if snap_after != snap_before {
                        self.viol("C02", &format!("{}|got={:?}|level-4-entry-with-PS|failed-call-changed-an-entry", op, out.oc), &st.hist, Some(ai), "");
                    }
                }
            }
            return None;
        }
        let before_s: Tree = if before.structural { before.clone() } else { walk_all_mode(sim(), self.skip, true) };
        let op = self.op_name(&act);
        // expected allocation requests from raw memory: tables are missing from the first all-zero slot downwards
        let mut exp_req = 0u32;
        let is_map = matches!(act, Act::Map { .. } | Act::Ident { .. });
        if is_map {
            let (sz, va) = act_page(&act, &self.al).unwrap();
            let sched = match act { Act::Map { sched, .. } | Act::Ident { sched, .. } => sched, _ => 0 };
            let ll = leaf_level(sz);
            let mut missing = false;
            for level in ((ll + 1)..=4).rev() {
                let key = (level - 1, base_of(va, table_span(level - 1)));
                let huge_here = level <= 3 && before_s.leaves.contains_key(&(level - 1, base_of(va, size_of(level - 1))));
                if !missing && huge_here {
                    break;
                }
                if missing || !before_s.tables.contains_key(&key) {
                    missing = true;
                    exp_req += 1;
                    let fail = match sched { 0 => false, 4 => true, k => exp_req == k as u32 };
                    if fail {
                        break;
                    }
                }
            }
        }
        let mut ast = AllocState { free: st.free.clone() };
        let out = self.run_call(&act, &mut ast);
        for p in PROPS {
            self.reps.get_mut(p).unwrap().transitions += 1;
        }
        self.reps.get_mut("C09").unwrap().bucket("transition-outside-quantified-domain(reduced oracle)");
        let s = sim();
        let mut clean = true;
        if s.nstray > 0 {
            let x = s.strays[0];
            let what = ["non-table-frame-of-the-window", "physical-memory-outside-the-page-tables", "not-present-window-address", "wild-address"][x.kind as usize];
            self.viol("C09", &format!("{}|non-present-entries|{}-of-{}", op, if x.write { "write" } else { "read" }, what), &st.hist, Some(ai), &format!("host {:#x} phys {:#x} frame {}", x.addr, x.phys, x.frame));
            clean = false;
        }
        if s.fatal {
            return None;
        }
        let out = out?;
        // a huge-page call on a slot that holds a page table must not succeed (same clause and signature as in-domain)
        if let Some((sz, va)) = act_page(&act, &self.al) {
            if !matches!(act, Act::SetP { .. }) {
                let r1s = R1 { tables: before_s.tables.clone(), leaves: before_s.leaves.clone() };
                let blocked = ((leaf_level(sz) + 1)..=4).rev().any(|l| !matches!(r1s.slot(va, l), Slot::Table(_)));
                if !blocked && matches!(r1s.slot(va, leaf_level(sz)), Slot::Table(_)) && out.oc == Oc::Ok {
                    let sit = Self::situation(&r1s, sz, va);
                    self.viol("C02", &format!("{}|walk={}|reports-success-for-a-mapping-of-a-size-that-does-not-exist", op, sit), &st.hist, Some(ai), "slot holds a page table, call returned Ok");
                    return None;
                }
            }
        }
        // holds in every state: "frame allocation failed" is reported only by a call during which the allocator returned None
        if out.oc == Oc::AllocFailed && out.requests as usize == out.given.len() {
            self.viol("C02", &format!("{}|got=AllocFailed|reports-FrameAllocationFailed-although-no-allocation-failed", op), &st.hist, Some(ai), &format!("{} requests, all served", out.requests));
            clean = false;
        }
        if is_map && out.requests != exp_req {
            self.viol("C09", &format!("{}|non-present-entries|allocation-requests={}|expected={}-(every-entry-on-the-walk-that-is-non-zero-counts-as-an-existing-table)", op, out.requests, exp_req), &st.hist, Some(ai), "");
            clean = false;
        }
        if !is_map && out.requests != 0 {
            self.viol("C09", &format!("{}|non-present-entries|requests-frames", op), &st.hist, Some(ai), "");
            clean = false;
        }
        let is_clean_op = matches!(act, Act::CleanAll | Act::CleanRange { .. });
        if !is_clean_op && !out.freed.is_empty() {
            self.viol("C09", &format!("{}|releases-frames", op), &st.hist, Some(ai), "");
            clean = false;
        }
        for p in &out.dealloc_problems {
            let kind = p.split(' ').take(6).collect::<Vec<_>>().join("-").replace(|c: char| c.is_ascii_digit(), "#");
            self.viol("C10", &format!("{}|non-present-entries|{}", op, kind), &st.hist, Some(ai), p);
            clean = false;
        }
        let after = walk_all_mode(s, self.skip, true);
        if !is_clean_op && out.oc != Oc::Ok && after.leaves != before_s.leaves {
            // representation-level clause that holds in every state: a call that returns an error changes no leaf entry
            self.viol("C02", &format!("{}|got={:?}|failed-call-changed-a-leaf-entry-(reduced-oracle)", op, out.oc), &st.hist, Some(ai), "");
            // ... and with it the translations no longer follow the history of *successful* calls
            self.viol("C01", &format!("{}|got={:?}|a-call-that-failed-changed-what-addresses-translate-to-(reduced-oracle)", op, out.oc), &st.hist, Some(ai), "");
            self.viol("C11", &format!("{}|got={:?}|a-leaf-mapping-changed-but-no-flush-token-was-returned", op, out.oc), &st.hist, Some(ai), "");
            clean = false;
        }
        if let (Act::Map { page, frame, flags, .. }, Oc::Ok) = (&act, &out.oc) {
            let (sz, va) = self.al.pages[*page as usize];
            if sz == 0 {
                // a new 4 KiB leaf entry is the bitwise union of the frame address and the flag word (C08), also when the two overlap
                let want = self.al.frames[0][*frame as usize] | self.al.leaf_flags[*flags as usize];
                match after.leaves.get(&(0, va)) {
                    Some(&(addr, fl)) if addr | fl == want => {}
                    got => {
                        self.viol("C01", &format!("{}|new-leaf-entry-is-not-frame-address-union-flags-(reduced-oracle)", op), &st.hist, Some(ai), &format!("{:x?} expected entry {:#x}", got, want));
                        clean = false;
                    }
                }
            }
        }
        if matches!(act, Act::SetP { flags, .. } if flags != PARENT_P4_HUGE) && out.oc == Oc::Ok {
            // holds in every state: a parent-flag setter rewrites flag bits of one entry; it never turns a leaf into a table
            // pointer (or back), whatever flags the leaf carries
            let kb: Vec<_> = before_s.leaves.keys().chain(before_s.tables.keys()).collect();
            let ka: Vec<_> = after.leaves.keys().chain(after.tables.keys()).collect();
            if kb != ka || before_s.leaves.len() != after.leaves.len() {
                self.viol("C09", &format!("{}|turns-a-leaf-entry-into-a-table-pointer-or-back-(reduced-oracle)", op), &st.hist, Some(ai), "");
                self.viol("C02", &format!("{}|got=Ok|turns-a-leaf-entry-into-a-table-pointer-or-back-(reduced-oracle)", op), &st.hist, Some(ai), "");
                clean = false;
            }
        }
        if is_clean_op && after.leaves != before_s.leaves {
            self.viol("C10", &format!("{}|non-present-entries|entries-changed", op), &st.hist, Some(ai), "");
            clean = false;
        }
        if !clean {
            return None;
        }
        let r1 = R1 { tables: after.tables.clone(), leaves: after.leaves.clone() };
        let mut hist = st.hist.clone();
        hist.push(ai as u16);
        let mut ns = self.snapshot(r1, ast.free, st.dev + cost, hist);
        ns.ood = true;
        Some(ns)
    }

    /// C20 (dynamic part): every recursive-window page the mapper touched must be the recursive address of a table the
    /// operation concerns: (R,R,R,p4), (R,R,p4,p3), (R,p4,p3,p2) of the page for page operations; for clean-up exactly the
    /// tables of the hierarchy that overlap the range.
    fn check_window(&mut self, st: &State, ai: usize, op: &str, act: &Act, r: u64) -> bool {
        let s = sim();
        let touched: Vec<u64> = s.last_win[..s.nlast].to_vec();
        let va4 = |a: u64, b: u64, c: u64, d: u64| sext(a << 39 | b << 30 | c << 21 | d << 12);
        let ix = |va: u64, l: u8| idx(va, l) as u64;
        let win_of = |level: u8, base: u64| -> u64 {
            match level {
                3 => va4(r, r, r, ix(base, 4)),
                2 => va4(r, r, ix(base, 4), ix(base, 3)),
                _ => va4(r, ix(base, 4), ix(base, 3), ix(base, 2)),
            }
        };
        let rep = self.reps.get_mut("C20").unwrap();
        rep.evals += touched.len() as u64;
        rep.nontrivial += touched.len() as u64;
        let mut ok = true;
        match act_page(act, &self.al) {
            Some((sz, va)) => {
                let allowed: Vec<u64> = (leaf_level(sz)..=3).map(|l| win_of(l, va)).collect();
                for t in &touched {
                    if !allowed.contains(t) {
                        self.viol("C20", &format!("{}|touches-a-recursive-window-address-that-is-not-one-of-the-page's-tables", op), &st.hist, Some(ai), &format!("touched {:#x}; allowed {:x?}", t, allowed));
                        ok = false;
                        break;
                    }
                }
            }
            None => {
                let (rs, re) = match act {
                    Act::CleanRange { r } => self.al.ranges[*r as usize],
                    _ => (0, 0xffff_ffff_ffff_f000),
                };
                if rs <= re {
                    let rend = re.wrapping_add(0xfff);
                    let mut expected: Vec<u64> = st.r1.tables.iter().filter(|(&(l, b), _)| b <= rend && b.wrapping_add(table_span(l) - 1) >= rs).map(|(&(l, b), _)| win_of(l, b)).collect();
                    expected.sort_unstable();
                    let mut got = touched.clone();
                    got.sort_unstable();
                    got.dedup();
                    if got != expected {
                        let missing: Vec<&u64> = expected.iter().filter(|x| !got.contains(x)).collect();
                        let extra: Vec<&u64> = got.iter().filter(|x| !expected.contains(x)).collect();
                        self.viol("C20", &format!("{}|does-not-reach-each-table-in-the-range-through-its-own-recursive-address", op), &st.hist, Some(ai), &format!("not visited {:x?}; visited but not a table overlapping the range {:x?}", missing, extra));
                        ok = false;
                    }
                }
            }
        }
        ok
    }

    fn check_op(&mut self, st: &State, ai: usize, op: &str, act: &Act, out: &Outcome, tree: &Tree, r1: &mut R1, before: &Tree) -> bool {
        let (sz, va) = act_page(act, &self.al).unwrap();
        let ll = leaf_level(sz);
        let sit = Self::situation(&st.r1, sz, va);
        let sched = match act { Act::Map { sched, .. } | Act::Ident { sched, .. } => *sched, _ => 0 };
        let (pred, exp_req, created) = self.predict(&st.r1, act, sched);
        let mut ok = true;
        let hist = st.hist.clone();
        self.reps.get_mut("C02").unwrap().bucket(&format!("{} -> {:?}", op.split('<').next().unwrap(), out.oc));
        // ---- C02: outcome class
        match (&pred, &out.oc) {
            (Some(e), g) if e == g => {}
            (None, Oc::Ok) => {
                self.viol("C02", &format!("{}|walk={}|reports-success-for-a-mapping-of-a-size-that-does-not-exist", op, sit), &hist, Some(ai), &format!("slot holds a page table, call returned Ok"));
                if tree.leaves != before.leaves || tree.tables != before.tables || !tree.malformed.is_empty() {
                    self.viol("C01", &format!("{}|walk={}|call-that-must-fail-returned-Ok-and-changed-the-mappings", op, sit), &hist, Some(ai), &diff_desc(tree, &st.r1));
                }
                ok = false;
            }
            (None, _) => {}
            (Some(e), g) => {
                self.viol("C02", &format!("{}|walk={}|expected={:?}|got={:?}", op, sit, e, g), &hist, Some(ai), "");
                if *g == Oc::Ok && (tree.leaves != before.leaves || tree.tables != before.tables || !tree.malformed.is_empty()) {
                    // a call that had to fail reported success and changed what addresses translate to
                    self.viol("C01", &format!("{}|walk={}|call-that-must-fail-returned-Ok-and-changed-the-mappings", op, sit), &hist, Some(ai), &diff_desc(tree, &st.r1));
                }
                ok = false;
            }
        }
        if !ok {
            return false; // the primary violation is the outcome; effects of a wrong outcome would only be cascades
        }
        // "page already mapped" names the frame of the refused request - in all three implementations
        if out.oc == Oc::AlreadyMapped {
            let want = match act {
                Act::Map { frame, .. } => Some(self.al.frames[sz as usize][*frame as usize]),
                Act::Ident { .. } => Some(va),
                _ => None,
            };
            if want.is_some() && out.frame != want {
                self.viol("C02", &format!("{}|walk={}|got=AlreadyMapped|the-frame-reported-with-the-error-differs-between-implementations-(not-the-frame-of-the-request)", op, sit), &hist, Some(ai), &format!("{:x?} expected {:x?}", out.frame, want));
                ok = false;
            }
        }
        // ---- C09: allocation requests
        let is_map = matches!(act, Act::Map { .. } | Act::Ident { .. });
        if is_map {
            self.reps.get_mut("C09").unwrap().bucket(&format!("map: {} frame(s) requested, schedule {}, outcome {:?}", out.requests, sched, out.oc));
        }
        if out.requests != if is_map { exp_req } else { 0 } {
            self.viol("C09", &format!("{}|walk={}|sched={}|allocation-requests={}|expected={}", op, sit, sched, out.requests, if is_map { exp_req } else { 0 }), &hist, Some(ai), "");
            ok = false;
        }
        if !out.freed.is_empty() {
            self.viol("C09", &format!("{}|releases-frames", op), &hist, Some(ai), "");
            ok = false;
        }
        // ---- effects
        // tables created by this call (also on allocation failure): bind frames in order of creation
        if is_map && out.given.len() == created.len() {
            for (i, &lvl) in created.iter().enumerate() {
                r1.tables.insert((lvl, base_of(va, table_span(lvl))), out.given[i]);
            }
        } else if out.given.len() != created.len() {
            self.viol("C09", &format!("{}|walk={}|frames-obtained={}|tables-needed={}", op, sit, out.given.len(), created.len()), &hist, Some(ai), "");
            return false;
        }
        let req_parent: u64 = match act {
            Act::Map { flags, parent, .. } => if *parent == 255 { self.al.leaf_flags[*flags as usize] & (P | W | U) } else { self.al.parent_flags[*parent as usize] },
            Act::Ident { flags, .. } => self.al.leaf_flags[*flags as usize] & (P | W | U),
            _ => 0,
        };
        if out.oc == Oc::Ok && pred == Some(Oc::Ok) {
            match act {
                Act::Map { frame, flags, .. } => {
                    let phys = self.al.frames[sz as usize][*frame as usize];
                    let f = self.al.leaf_flags[*flags as usize] | if sz > 0 { HUGE } else { 0 };
                    r1.leaves.insert((sz, va), (phys, f));
                }
                Act::Ident { flags, .. } => {
                    let f = self.al.leaf_flags[*flags as usize] | if sz > 0 { HUGE } else { 0 };
                    r1.leaves.insert((sz, va), (va, f));
                }
                Act::Unmap { .. } => {
                    let (phys, _) = r1.leaves.remove(&(sz, va)).unwrap();
                    if out.frame != Some(phys) {
                        self.viol("C01", &format!("{}|returns-a-frame-other-than-the-one-mapped", op), &hist, Some(ai), &format!("{:x?} vs {:#x}", out.frame, phys));
                        ok = false;
                    }
                }
                Act::Update { flags, .. } => {
                    let f = self.al.leaf_flags[*flags as usize] | if sz > 0 { HUGE } else { 0 };
                    r1.leaves.get_mut(&(sz, va)).unwrap().1 = f;
                }
                Act::SetP { .. } => {}
                _ => {}
            }
            // C11a: token names the page
            match act {
                Act::SetP { .. } => {
                    if !out.flush_all {
                        self.viol("C11", &format!("{}|no-flush-all-token", op), &hist, Some(ai), "");
                        ok = false;
                    }
                    self.reps.get_mut("C11").unwrap().bucket("set_flags_pN_entry Ok: MapperFlushAll token");
                }
                _ => {
                    if out.flush_page != Some(va) {
                        self.viol("C11", &format!("{}|flush-token-names-a-different-page", op), &hist, Some(ai), &format!("{:x?} vs {:#x}", out.flush_page, va));
                        ok = false;
                    }
                    self.reps.get_mut("C11").unwrap().ev(true);
                    self.reps.get_mut("C11").unwrap().bucket(&format!("{} Ok: token page == argument page", op.split('<').next().unwrap()));
                }
            }
        }
        // raw memory (R2) must equal R1 after the call — on Ok and on Err alike
        if !tree.malformed.is_empty() || tree.tables != r1.tables || tree.leaves != r1.leaves {
            let what = if out.oc == Oc::Ok { "C01" } else { "C02" };
            let kind = if !tree.malformed.is_empty() {
                "raw-tables-malformed"
            } else if tree.leaves != r1.leaves {
                if out.oc == Oc::Ok { "mappings-in-memory-differ-from-the-history" } else { "failed-call-changed-a-mapping" }
            } else {
                "table-structure-differs"
            };
            let d = diff_desc(tree, r1);
            if what == "C01" {
                self.viol("C01", &format!("{}|walk={}|{}", op, sit, kind), &hist, Some(ai), &d);
            } else {
                self.viol("C02", &format!("{}|walk={}|got={:?}|{}", op, sit, out.oc, kind), &hist, Some(ai), &d);
            }
            if kind == "raw-tables-malformed" && out.oc == Oc::Ok && is_map {
                // new tables holding garbage: the zeroing clause
                self.viol("C09", &format!("{}|walk={}|new-table-not-zeroed-or-garbage-entries", op, sit), &hist, Some(ai), &d);
            }
            return false;
        }
        // parent-entry flags
        for level in ((ll + 1)..=4).rev() {
            let key = (level - 1, base_of(va, table_span(level - 1)));
            let after = tree.link_flags.get(&key).copied();
            let bef = before.link_flags.get(&key).copied();
            match (bef, after) {
                (Some(b), Some(a)) => {
                    let allowed = match act {
                        Act::SetP { level: l, flags, .. } if *l == level && out.oc == Oc::Ok => {
                            let want = self.al.parent_flags[*flags as usize];
                            if a != want {
                                self.viol("C01", &format!("{}|parent-entry-flags-not-set-to-the-given-flags", op), &hist, Some(ai), &format!("{:#x} vs {:#x}", a, want));
                                ok = false;
                            }
                            true
                        }
                        _ => is_map && a & b == b && a & !(b | req_parent) == 0,
                    };
                    if !allowed && a != b {
                        let p = if out.oc == Oc::Ok { "C09" } else { "C02" };
                        self.viol(p, &format!("{}|walk={}|got={:?}|existing-parent-entry-changed-beyond-adding-requested-flags", op, sit, out.oc), &hist, Some(ai), &format!("level {} {:#x} -> {:#x}", level, b, a));
                        ok = false;
                    }
                    if is_map && out.oc == Oc::Ok && a & req_parent != req_parent {
                        self.viol("C01", &format!("{}|walk={}|requested-parent-flags-missing-on-the-walk", op, sit), &hist, Some(ai), &format!("level {} has {:#x}, requested {:#x}", level, a, req_parent));
                        ok = false;
                    }
                }
                (None, Some(a)) => {
                    // link created by this call: must contain the requested flags; P|W may be added (recursive)
                    if a & req_parent != req_parent || a & !(req_parent | P | W) != 0 {
                        self.viol("C01", &format!("{}|walk={}|new-parent-entry-flags-wrong", op, sit), &hist, Some(ai), &format!("level {} has {:#x}, requested {:#x}", level, a, req_parent));
                        ok = false;
                    }
                }
                _ => {}
            }
        }
        // links not on the walk must be untouched
        for (k, b) in &before.link_flags {
            let on_walk = (ll..=3).any(|l| *k == (l, base_of(va, table_span(l)))) ;
            if !on_walk && tree.link_flags.get(k) != Some(b) {
                self.viol("C09", &format!("{}|writes-outside-the-entries-on-its-walk", op), &hist, Some(ai), &format!("link {:?}", k));
                ok = false;
            }
        }
        ok
    }

    fn check_clean(&mut self, st: &State, ai: usize, op: &str, out: &Outcome, tree: &Tree, r1: &mut R1, before: &Tree) -> bool {
        let hist = st.hist.clone();
        let act = self.acts[ai].0;
        let (rs, re) = match act {
            Act::CleanRange { r } => self.al.ranges[r as usize],
            _ => (0, 0xffff_ffff_ffff_f000),
        };
        let empty_range = rs > re;
        let rend = re.wrapping_add(0xfff);
        let mut ok = true;
        // a release-protocol problem (reported below) that leaves translations and table structure as the history dictates does
        // not end the exploration of this branch: what later calls do with such memory is checked under the other properties
        let soft = !out.dealloc_problems.is_empty() && out.dealloc_problems.iter().all(|p| p.contains("before unlinking"));
        for p in &out.dealloc_problems {
            let kind = p.split(' ').take(6).collect::<Vec<_>>().join("-").replace(|c: char| c.is_ascii_digit(), "#");
            self.viol("C10", &format!("{}|{}", op, kind), &hist, Some(ai), p);
            if p.contains("before unlinking") || p.contains("not a page table of the hierarchy") || p.contains("still holds an entry") {
                // C09: at the moment a frame is released it stops being page-table memory of the hierarchy; a hierarchy that still
                // links to it (or a release of memory that is not an empty table) makes the mapper touch memory it does not own
                self.viol("C09", &format!("{}|releases-memory-the-hierarchy-still-uses-or-never-owned|{}", op, kind), &hist, Some(ai), p);
            }
            ok &= soft;
        }
        if out.requests != 0 || !out.given.is_empty() {
            self.viol("C09", &format!("{}|requests-frames", op), &hist, Some(ai), "");
            ok = false;
        }
        // every freed frame: a level 1-3 table of R1 overlapping the range; remove from R1 (must be empty there once its freed children are gone)
        let mut freed_keys = vec![];
        for &f in &out.freed {
            match st.r1.frame_table(f) {
                None => {
                    self.viol("C10", &format!("{}|frees-a-frame-that-is-not-a-table-of-the-hierarchy", op), &hist, Some(ai), &format!("frame {}", f));
                    ok = false;
                }
                Some((lvl, base)) => {
                    let tend = base.wrapping_add(table_span(lvl) - 1);
                    let overlaps = !empty_range && base <= rend && tend >= rs;
                    if !overlaps {
                        self.viol("C10", &format!("{}|frees-a-table-outside-the-range", op), &hist, Some(ai), &format!("level {} base {:#x} range {:#x}..={:#x}", lvl, base, rs, re));
                        ok = false;
                    }
                    freed_keys.push((lvl, base));
                }
            }
        }
        for k in &freed_keys {
            r1.tables.remove(k);
        }
        for &(lvl, base) in &freed_keys {
            if r1.table_len(lvl, base) != 0 {
                self.viol("C10", &format!("{}|frees-a-table-that-still-holds-an-entry", op), &hist, Some(ai), &format!("level {} base {:#x}", lvl, base));
                ok = false;
            }
        }
        if !tree.malformed.is_empty() || tree.leaves != r1.leaves {
            self.viol("C10", &format!("{}|translations-changed", op), &hist, Some(ai), &diff_desc(tree, r1));
            self.viol("C01", &format!("{}|translations-differ-from-the-history-after-clean-up", op), &hist, Some(ai), &diff_desc(tree, r1));
            // entries that were left non-zero without PRESENT while every present entry is as the history dictates: reported above,
            // and the branch is explored further - what the next calls make of such entries is judged under their own properties
            let only_stale = tree.malformed.iter().all(|m| m.starts_with("non-zero non-present entry")) && tree.leaves == r1.leaves && tree.tables == r1.tables;
            if !only_stale {
                return false;
            }
        }
        if tree.tables != r1.tables {
            self.viol("C10", &format!("{}|table-structure-inconsistent-with-the-frames-released", op), &hist, Some(ai), &diff_desc(tree, r1));
            return false;
        }
        // no empty table wholly inside the range may remain
        if !empty_range {
            for (&(lvl, base), _) in &r1.tables {
                let tend = base.wrapping_add(table_span(lvl) - 1);
                if base >= rs && tend <= rend && r1.table_len(lvl, base) == 0 {
                    self.viol("C10", &format!("{}|leaves-an-empty-level-{}-table-wholly-inside-the-range", op, lvl), &hist, Some(ai), &format!("base {:#x} range {:#x}..={:#x}", base, rs, re));
                    ok = false;
                }
            }
        }
        // tables that do not overlap the range: byte-identical (link flags of surviving links unchanged everywhere)
        for (k, b) in &before.link_flags {
            if r1.tables.contains_key(k) && tree.link_flags.get(k) != Some(b) {
                self.viol("C10", &format!("{}|modifies-a-surviving-parent-entry", op), &hist, Some(ai), &format!("{:?}", k));
                ok = false;
            }
        }
        if !ok {
            return false;
        }
        // idempotence: the same clean-up again releases nothing and changes nothing
        let s = sim();
        let mut ast2 = AllocState { free: vec![] };
        let out2 = self.run_call(&act, &mut ast2);
        match out2 {
            Some(o2) => {
                let t2 = walk_all(s, self.skip);
                if !o2.freed.is_empty() || t2 != *tree || !o2.dealloc_problems.is_empty() {
                    self.viol("C10", &format!("{}|second-identical-clean-up-releases-or-changes-something", op), &hist, Some(ai), &format!("freed {:?}", o2.freed));
                    return false;
                }
            }
            None => {
                self.viol("C10", &format!("{}|panics", op), &hist, Some(ai), "second run");
                return false;
            }
        }
        true
    }

    fn check_translate_vs_walk(&mut self, st: &State) {
        let cfg = self.cfg.clone();
        let probes = self.al.probes_small.clone();
        let s = sim();
        s.begin_call();
        let res = catch(|| {
            on_mapper!(cfg, |m| {
                let mut bad: Option<String> = None;
                for &a in &probes {
                    let exp = match walk_one(s, a) {
                        Ok(Some((base, _, phys, _, _, _))) => Some(phys + (a - base)),
                        Ok(None) => None,
                        Err(_) => continue, // malformed for the hardware too (H4-corrupted states): nothing to compare
                    };
                    let got = m.translate_addr(VirtAddr::new(a)).map(|p| p.as_u64());
                    if got != exp && bad.is_none() {
                        bad = Some(format!("va {:#x}: translate_addr {:x?}, hardware walk {:x?}", a, got, exp));
                    }
                }
                bad
            })
        });
        s.end_call();
        self.reps.get_mut("C01").unwrap().evals += probes.len() as u64;
        if let Ok(Some(d)) = res {
            let hist = st.hist.clone();
            self.viol("C01", "translate_addr|disagrees-with-the-hardware-walk-of-the-same-memory|huge-page-with-PAT-bit", &hist, None, &d);
        }
    }

    /// per-state oracle: the implementation's translate functions against R1 on the probe addresses
    pub fn check_state(&mut self, st: &State, full: bool) {
        if st.ood {
            // outside the quantified domain: translation semantics are not specified by R1. One thing still is: while every
            // entry in the tables is present (the state left the domain only through the PAT bit of a huge page), the physical
            // address the implementation translates to is the one the hardware walk of the same memory yields.
            if st.ents.iter().all(|&(_, _, v)| v & P != 0) {
                self.check_translate_vs_walk(st);
            }
            return;
        }
        let cfg = self.cfg.clone();
        let probes: Vec<u64> = if full { self.al.probes.clone() } else { self.al.probes_small.clone() };
        let pages = self.al.pages.clone();
        let s = sim();
        let r1 = &st.r1;
        let mut viols: Vec<(&'static str, String, String)> = vec![];
        s.begin_call();
        let res = catch(|| {
            on_mapper!(cfg, |m| {
                let mut v: Vec<(&'static str, String, String)> = vec![];
                for &a in &probes {
                    let exp = r1.translate(a);
                    let hw = walk_one(s, a);
                    let got = impl_translate(&m, a);
                    let hw_n = hw.clone().map(|o| o.map(|(b, sz, p, f, _, _)| (b, sz, p, f)));
                    if hw_n != Ok(exp) {
                        v.push(("C01", "hardware-walk-disagrees-with-history".into(), format!("va {:#x}: walk {:x?}, history {:x?}", a, hw_n, exp)));
                    }
                    if got != Ok(exp) {
                        v.push(("C01", format!("translate|{}", if exp.is_some() { "mapped-address-translated-wrongly" } else { "unmapped-address-reported-mapped" }), format!("va {:#x}: translate {:x?}, history {:x?}", a, got, exp)));
                    }
                    let ta = m.translate_addr(VirtAddr::new(a)).map(|p| p.as_u64());
                    let ea = exp.map(|(b, _, p, _)| p + (a - b));
                    if ta != ea {
                        v.push(("C01", "translate_addr|wrong-physical-address".into(), format!("va {:#x}: {:x?} vs {:x?}", a, ta, ea)));
                    }
                }
                for &(sz, va) in &pages {
                    // translate_page::<S>: outcome per Appendix A
                    let ll = leaf_level(sz);
                    let mut exp: Option<Result<u64, Oc>> = None;
                    for level in ((ll + 1)..=4).rev() {
                        match r1.slot(va, level) {
                            Slot::Leaf(..) => { exp = Some(Err(Oc::ParentHuge)); break; }
                            Slot::Empty => { exp = Some(Err(Oc::NotMapped)); break; }
                            Slot::Table(_) => {}
                        }
                    }
                    let mut any_err = false;
                    if exp.is_none() {
                        match r1.slot(va, ll) {
                            Slot::Empty => exp = Some(Err(Oc::NotMapped)),
                            Slot::Leaf(p, _) => exp = Some(Ok(p)),
                            Slot::Table(_) => any_err = true,
                        }
                    }
                    let got: Result<u64, Oc> = match sz {
                        0 => Mapper::<Size4KiB>::translate_page(&m, Page::from_start_address(VirtAddr::new(va)).unwrap()).map(|f| f.start_address().as_u64()).map_err(tr_err),
                        1 => Mapper::<Size2MiB>::translate_page(&m, Page::from_start_address(VirtAddr::new(va)).unwrap()).map(|f| f.start_address().as_u64()).map_err(tr_err),
                        _ => Mapper::<Size1GiB>::translate_page(&m, Page::from_start_address(VirtAddr::new(va)).unwrap()).map(|f| f.start_address().as_u64()).map_err(tr_err),
                    };
                    let sit = Engine::situation(r1, sz, va);
                    if any_err {
                        if got.is_ok() {
                            v.push(("C02", format!("translate_page<{}>|walk={}|reports-success-for-a-mapping-of-a-size-that-does-not-exist", sz_name(sz), sit), format!("page {:#x}: {:x?}", va, got)));
                        }
                    } else if Some(got.clone()) != exp {
                        v.push(("C02", format!("translate_page<{}>|walk={}|expected={:x?}|got={:x?}", sz_name(sz), sit, exp.clone().map(|e| e.map(|_| "frame")), got.clone().map(|_| "frame")), format!("page {:#x}: {:x?} vs {:x?}", va, got, exp)));
                        // C01: translate_page is one of the three read interfaces that must agree with the history on which
                        // frame a mapped page has and on whether a page is mapped at all
                        if got.is_ok() || matches!(exp, Some(Ok(_))) {
                            v.push(("C01", format!("translate_page<{}>|{}", sz_name(sz), if matches!(exp, Some(Ok(_))) { "mapped-page-translated-wrongly" } else { "unmapped-page-reported-mapped" }), format!("page {:#x}: {:x?}, history {:x?}", va, got, exp)));
                        }
                    }
                }
                v
            })
        });
        s.end_call();
        match res {
            Ok(v) => viols = v,
            Err(()) => viols.push(("C01", "translate|panics".into(), String::new())),
        }
        if let Impl::Recursive(ri) = self.cfg.imp {
            // C20 (dynamic): translate / translate_addr / translate_page may reach only the recursive addresses of the tables
            // of the probed pages, computed with the recursive index the mapper was given
            let r = ri as u64;
            let va4 = |a: u64, b: u64, c: u64, d: u64| sext(a << 39 | b << 30 | c << 21 | d << 12);
            let ix = |va: u64, l: u8| idx(va, l) as u64;
            let mut allowed: HashSet<u64> = HashSet::new();
            for &a in probes.iter().chain(pages.iter().map(|(_, a)| a)) {
                allowed.insert(va4(r, r, r, ix(a, 4)));
                allowed.insert(va4(r, r, ix(a, 4), ix(a, 3)));
                allowed.insert(va4(r, ix(a, 4), ix(a, 3), ix(a, 2)));
            }
            let touched: Vec<u64> = s.last_win[..s.nlast].to_vec();
            let rep = self.reps.get_mut("C20").unwrap();
            rep.evals += touched.len() as u64;
            rep.nontrivial += touched.len() as u64;
            if let Some(t) = touched.iter().find(|t| !allowed.contains(t)) {
                viols.push(("C20", "translate*|touches-an-address-that-is-not-a-recursive-table-address-of-a-probed-page".into(), format!("touched {:#x} (recursive index {})", t, r)));
            }
        }
        if s.nstray > 0 {
            let x = s.strays[0];
            let what = ["non-table-frame-of-the-window", "physical-memory-outside-the-page-tables", "not-present-window-address", "wild-address"][x.kind as usize];
            viols.push(("C09", format!("translate*|{}-of-{}", if x.write { "write" } else { "read" }, what), format!("host {:#x} phys {:#x} frame {}", x.addr, x.phys, x.frame)));
        }
        let n = probes.len() as u64;
        {
            let mut cnt = [0u64; 4];
            for &a in &probes {
                match st.r1.translate(a) {
                    Some((_, sz, _, _)) => cnt[sz as usize] += 1,
                    None => cnt[3] += 1,
                }
            }
            let r = self.reps.get_mut("C01").unwrap();
            r.bucket_n("probe translated through a 4KiB mapping", cnt[0]);
            r.bucket_n("probe translated through a 2MiB mapping", cnt[1]);
            r.bucket_n("probe translated through a 1GiB mapping", cnt[2]);
            r.bucket_n("probe not mapped", cnt[3]);
        }
        self.reps.get_mut("C01").unwrap().evals += n;
        self.reps.get_mut("C01").unwrap().nontrivial += st.r1.leaves.len().min(1) as u64 * n;
        let hist = st.hist.clone();
        let mut seen: HashSet<String> = HashSet::new();
        for (p, sig, d) in viols {
            if seen.insert(sig.clone()) {
                self.viol(p, &sig, &hist, None, &d);
            }
        }
    }

    pub fn search(&mut self, bounds: &Bounds, a: &Args, max_states: u64) {
        let init = self.initial();
        let mut visited: HashSet<u128> = HashSet::new();
        let mut r1_of: std::collections::HashMap<u128, u64> = std::collections::HashMap::new();
        visited.insert(init.key());
        let mut frontier = vec![init];
        let maxd = bounds.max_depth();
        let t0 = std::time::Instant::now();
        let cpu0 = cpu_secs();
        let mut capped = false;
        for depth in 0..maxd {
            let mut next: Vec<State> = Vec::new();
            for (si, st) in frontier.iter().enumerate() {
                self.restore(st);
                let tree_before = walk_all_mode(sim(), self.skip, st.ood);
                self.check_state(st, depth <= 1);
                let mut dirty = false;
                for ai in 0..self.acts.len() {
                    let cost = self.acts[ai].1;
                    if !bounds.allows(depth + 1, st.dev + cost) {
                        // one call beyond the bound, result discarded: a map with an exhausted allocator in a state reached by a
                        // call that released frames (what was released must be allocated again before it is used again)
                        if self.is_exhausted_map(ai) && self.reached_by_release(st) && !st.ood {
                            if dirty {
                                self.restore(st);
                            }
                            let _ = self.step(st, ai, &tree_before);
                            dirty = true;
                        }
                        continue;
                    }
                    if dirty {
                        self.restore(st);
                    }
                    let succ = self.step(st, ai, &tree_before);
                    dirty = true;
                    if let Some(ns) = succ {
                        let k = ns.key();
                        let rk = ns.r1_key();
                        match r1_of.get(&k) {
                            Some(&prev) if prev != rk => {
                                self.viol("C01", "two-histories-reach-the-same-memory-with-different-dictated-mappings", &ns.hist.clone(), None, "");
                            }
                            _ => {}
                        }
                        if visited.insert(k) {
                            r1_of.insert(k, rk);
                            next.push(ns);
                        }
                    }
                }
                if visited.len() as u64 > max_states || cpu_secs().saturating_sub(cpu0) > a_time_cap(a) {
                    capped = true;
                    let msg = format!("cap hit at depth {} after {} of {} frontier states ({} states, {} s)", depth + 1, si + 1, frontier.len(), visited.len(), t0.elapsed().as_secs());
                    for p in PROPS {
                        self.reps.get_mut(p).unwrap().caps.push(msg.clone());
                    }
                    break;
                }
            }
            if let Some(ns) = next.last() {
                let h: Vec<String> = ns.hist.iter().map(|&i| format!("{:?}", self.acts[i as usize].0)).collect();
                let smp = format!("mapper {} {} # depth {}: {}", self.cfg.to_arg(), ns.hist.iter().map(|i| i.to_string()).collect::<Vec<_>>().join(","), depth + 1, h.join(" ; "));
                for p in PROPS {
                    self.reps.get_mut(p).unwrap().samples.push(smp.clone());
                }
            }
            for p in PROPS {
                let r = self.reps.get_mut(p).unwrap();
                r.max_depth = depth as u64 + 1;
                r.states = visited.len() as u64;
            }
            if capped {
                break;
            }
            frontier = next;
            if frontier.is_empty() {
                break;
            }
        }
        // leaf level: check the last frontier's states too (state oracle only)
        if !capped {
            for st in frontier.iter() {
                self.restore(st);
                self.check_state(st, false);
                if self.reached_by_release(st) && !st.ood {
                    let tree_before = walk_all_mode(sim(), self.skip, st.ood);
                    for ai in 0..self.acts.len() {
                        if self.is_exhausted_map(ai) {
                            self.restore(st);
                            let _ = self.step(st, ai, &tree_before);
                        }
                    }
                }
            }
        }
        for p in PROPS {
            let r = self.reps.get_mut(p).unwrap();
            r.exhaustive = !capped;
            r.nontrivial = r.nontrivial.max(r.transitions);
            r.note(&format!("bounds (depth,deviations) {:?}; {} actions per state; alphabet variant {}", bounds.0, self.acts.len(), self.cfg.variant));
        }
    }
}

/// engine cap in seconds of *CPU time of this process* (not wall time: a loaded machine must not cut the search short)
fn a_time_cap(a: &Args) -> u64 {
    if a.thorough() { 2400 } else { 150 }
}
fn cpu_secs() -> u64 {
    let mut ts = libc::timespec { tv_sec: 0, tv_nsec: 0 };
    unsafe { libc::clock_gettime(libc::CLOCK_PROCESS_CPUTIME_ID, &mut ts) };
    ts.tv_sec as u64
}

fn diff_desc(t: &Tree, r1: &R1) -> String {
    let mut s = String::new();
    for m in t.malformed.iter().take(2) {
        s += &format!("[malformed: {}] ", m);
    }
    for (k, v) in &t.leaves {
        if r1.leaves.get(k) != Some(v) {
            s += &format!("[memory has {} page {:#x} -> {:#x} flags {:#x}, history says {:x?}] ", sz_name(k.0), k.1, v.0, v.1, r1.leaves.get(k));
            break;
        }
    }
    for (k, v) in &r1.leaves {
        if !t.leaves.contains_key(k) {
            s += &format!("[history has {} page {:#x} -> {:#x}, memory has nothing] ", sz_name(k.0), k.1, v.0);
            break;
        }
    }
    for (k, v) in &t.tables {
        if r1.tables.get(k) != Some(v) {
            s += &format!("[memory links a level-{} table at {:#x} (frame {}), history says {:?}] ", k.0, k.1, v, r1.tables.get(k));
            break;
        }
    }
    for (k, v) in &r1.tables {
        if !t.tables.contains_key(k) {
            s += &format!("[history has a level-{} table at {:#x} (frame {}), memory does not link it] ", k.0, k.1, v);
            break;
        }
    }
    s
}

/// re-execute one recorded history (replay): "mapper <cfg> <i,j,k> # ..."
impl Engine {
    /// The soak cycle: one long history in which every step is legal and succeeds, repeated many times over recycled frames
    /// (map two 4 KiB pages sharing their tables, change flags, unmap both, map/unmap a 2 MiB page, clean up). Behaviour that
    /// depends on how often something was called (a counter that wraps, a cache that warms up) shows as a violation of the
    /// ordinary transition oracles at step k.
    pub fn soak(&mut self, steps: u64) {
        let find = |acts: &Vec<(Act, u8)>, want: Act| acts.iter().position(|(a, _)| *a == want);
        let p4: Vec<u8> = self.al.pages.iter().enumerate().filter(|(_, p)| p.0 == 0).map(|(i, _)| i as u8).collect();
        let p2: Vec<u8> = self.al.pages.iter().enumerate().filter(|(_, p)| p.0 == 1).map(|(i, _)| i as u8).collect();
        if p4.len() < 2 || p2.is_empty() {
            return;
        }
        let (pa, pb, pc) = (p4[0], p4[1], p2[p2.len() - 1]);
        let cycle: Vec<usize> = [
            Act::Map { page: pa, frame: 0, flags: 0, parent: 0, sched: 0 },
            Act::Map { page: pb, frame: 0, flags: 0, parent: 0, sched: 0 },
            Act::Update { page: pa, flags: 1 },
            Act::Unmap { page: pa },
            Act::Unmap { page: pb },
            Act::CleanAll,
            Act::Map { page: pc, frame: 0, flags: 0, parent: 0, sched: 0 },
            Act::Unmap { page: pc },
            Act::CleanRange { r: 11 },
        ]
        .iter()
        .filter_map(|a| find(&self.acts, *a))
        .collect();
        if cycle.len() != 9 {
            return;
        }
        let mut st = self.initial();
        self.restore(&st);
        self.soak_steps = Some(0);
        for k in 0..steps {
            self.soak_steps = Some(k);
            self.restore(&st);
            let tb = walk_all_mode(sim(), self.skip, st.ood);
            if k % 97 == 0 {
                self.check_state(&st, false);
            }
            match self.step(&st, cycle[(k % 9) as usize], &tb) {
                Some(mut ns) => {
                    ns.hist.clear();
                    ns.dev = 0;
                    st = ns;
                }
                None => break,
            }
        }
        self.soak_steps = None;
        for p in PROPS {
            let r = self.reps.get_mut(p).unwrap();
            r.notes.push(format!("soak: {} steps of a 9-call cycle (map x2, update_flags, unmap x2, clean_up, map/unmap 2MiB, clean_up_addr_range) over recycled frames, all transition oracles on", steps));
        }
    }
}

impl Engine {
    /// Wide histories (alphabet W): n sibling tables under one parent are created, emptied and cleaned up in ONE clean-up call,
    /// for every n the frame pool allows (1..=21) at each of the three levels; with all pages unmapped, and with the last one
    /// left mapped. Every call goes through the ordinary transition oracles.
    pub fn wide(&mut self) {
        if self.cfg.variant != 'W' {
            return;
        }
        let find = |acts: &Vec<(Act, u8)>, want: Act| acts.iter().position(|(a, _)| *a == want).unwrap();
        let mut steps = 0u64;
        for sz in [0u8, 1, 2] {
            let idxs: Vec<u8> = self.al.pages.iter().enumerate().filter(|(_, p)| p.0 == sz).map(|(i, _)| i as u8).collect();
            for n in 1..=idxs.len() {
                for (keep_last, clean) in [(false, Act::CleanAll), (false, Act::CleanRange { r: 11 }), (true, Act::CleanAll), (false, Act::CleanRange { r: 10 })] {
                    if keep_last && n < 2 {
                        continue;
                    }
                    let mut seq: Vec<usize> = idxs[..n].iter().map(|&p| find(&self.acts, Act::Map { page: p, frame: 0, flags: 0, parent: 0, sched: 0 })).collect();
                    let un = if keep_last { n - 1 } else { n };
                    seq.extend(idxs[..un].iter().map(|&p| find(&self.acts, Act::Unmap { page: p })));
                    seq.push(find(&self.acts, clean));
                    let mut st = self.initial();
                    for &ai in &seq {
                        self.restore(&st);
                        let tb = walk_all_mode(sim(), self.skip, st.ood);
                        steps += 1;
                        match self.step(&st, ai, &tb) {
                            Some(ns) => st = ns,
                            None => break,
                        }
                    }
                    self.restore(&st);
                    self.check_state(&st, false);
                }
            }
        }
        for p in PROPS {
            let r = self.reps.get_mut(p).unwrap();
            r.notes.push(format!("wide histories: 1..=21 sibling tables per parent at each level, emptied and cleaned up in one call ({} calls)", steps));
        }
    }
}

pub fn replay(case: &str) -> Vec<Rep> {
    let t: Vec<&str> = case.split_whitespace().collect();
    let cfg = Config::parse(t[1]);
    if let Some(k) = t.get(2).and_then(|x| x.strip_prefix("soak:")) {
        let mut e = Engine::new(cfg);
        e.soak(k.parse().unwrap());
        return e.reps.into_values().collect();
    }
    let idx: Vec<usize> = if t.len() > 2 && t[2] != "#" { t[2].split(',').filter(|x| !x.is_empty()).map(|x| x.parse().unwrap()).collect() } else { vec![] };
    let mut e = Engine::new(cfg);
    if std::env::var("VH_LIST_ACTIONS").is_ok() {
        for (i, a) in e.acts.iter().enumerate() {
            eprintln!("{} {:?} cost {}", i, a.0, a.1);
        }
    }
    let mut st = e.initial();
    e.restore(&st);
    for (n, &ai) in idx.iter().enumerate() {
        e.restore(&st);
        let tb = walk_all_mode(sim(), e.skip, st.ood);
        e.check_state(&st, true);
        match e.step(&st, ai, &tb) {
            Some(ns) => st = ns,
            None => {
                let _ = n;
                break;
            }
        }
    }
    e.restore(&st);
    e.check_state(&st, true);
    e.reps.into_values().collect()
}

pub fn run(a: &Args) {
    if let Some(c) = &a.replay {
        for r in replay(c) {
            r.emit();
        }
        return;
    }
    let cfg = Config::parse(&a.extra[0]);
    let bounds = Bounds(a.extra[1].split(';').map(|p| { let (d, k) = p.split_once(',').unwrap(); (d.parse().unwrap(), k.parse().unwrap()) }).collect());
    let max_states: u64 = a.extra.get(2).map(|x| x.parse().unwrap()).unwrap_or(3_000_000);
    let mut e = Engine::new(cfg);
    e.search(&bounds, a, max_states);
    e.soak(if a.thorough() { 600_000 } else { 30_000 });
    e.wide();

    for r in e.reps.values() {
        r.emit();
    }
}
