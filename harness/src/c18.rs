//! C18 — port objects perform exactly one access of their width on their port (E4).
use crate::out::*;
use crate::simcpu::{cpu, fault_mode_on, run_stepped, run_window, Ev};
use crate::Args;
use x86_64::instructions::port::{Port, PortGeneric, PortReadOnly, PortWriteOnly, ReadWriteAccess};

const VALS: [u32; 6] = [0, 0xffff_ffff, 0x8040_2010, 0x0102_0408, 0xdead_beef, 0x7fff_ff7f];

fn one<R>(step: bool, f: impl FnOnce() -> R) -> (Result<R, ()>, Vec<Ev>) {
    cpu().clear_events();
    // fault mode stays on for the whole sweep (fault_mode_on): an access that the optimiser moved out of the call
    // is still emulated, but then it is missing from this call's event window
    let r = if step { let x = run_stepped(f); fault_mode_on(); x } else { run_window(f) };
    (r, cpu().evs())
}

pub fn port_case(r: &mut Rep, port: u16, step: bool) {
    macro_rules! width {
        ($ty:ty, $bits:expr, $mask:expr) => {
            for (vi, &v) in VALS.iter().enumerate() {
                if !step && vi >= 3 && port % 64 != 0 {
                    continue;
                }
                let case = format!("port {} {} {:#x} {}", port, $bits, v, step);
                // read through Port and PortReadOnly; canaries around the object
                cpu().port_in = v;
                let mut guard = (0xa5a5_a5a5_a5a5_a5a5u64, Port::<$ty>::new(port), 0x5a5a_5a5a_5a5a_5a5au64);
                let (rv, ev) = one(step, || unsafe { guard.1.read() });
                r.ev(true);
                r.transitions += ev.len() as u64;
                let exp = (v & $mask) as $ty;
                if ev != [Ev::In(port, $bits, v & $mask)] {
                    let w = if ev.len() != 1 { "not-exactly-one-port-instruction" } else { match ev[0] { Ev::In(p, b, _) => if p != port { "wrong-port" } else if b != $bits { "wrong-width" } else { "wrong-value" }, _ => "wrong-instruction" } };
                    r.viol(&format!("C18|Port<u{}>::read|{}", $bits, w), &case, &format!("{:x?}", ev));
                } else if rv != Ok(exp) {
                    r.viol(&format!("C18|Port<u{}>::read|returns-other-value-than-the-device-supplied", $bits), &case, &format!("{:x?} expected {:#x}", rv, exp));
                }
                if guard.0 != 0xa5a5_a5a5_a5a5_a5a5 || guard.2 != 0x5a5a_5a5a_5a5a_5a5a || guard.1 != Port::<$ty>::new(port) {
                    r.viol(&format!("C18|Port<u{}>::read|touches-memory", $bits), &case, "");
                }
                let mut ro = PortReadOnly::<$ty>::new(port);
                let (rv, ev) = one(step, || unsafe { ro.read() });
                if ev != [Ev::In(port, $bits, v & $mask)] || rv != Ok(exp) {
                    r.viol(&format!("C18|PortReadOnly<u{}>::read|wrong-access", $bits), &case, &format!("{:x?} {:x?}", rv, ev));
                }
                // write through Port and PortWriteOnly
                let mut p = Port::<$ty>::new(port);
                let (_, ev) = one(step, || unsafe { p.write(exp) });
                r.ev(true);
                r.transitions += ev.len() as u64;
                if ev != [Ev::Out(port, $bits, v & $mask)] {
                    let w = if ev.len() != 1 { "not-exactly-one-port-instruction" } else { match ev[0] { Ev::Out(q, b, _) => if q != port { "wrong-port" } else if b != $bits { "wrong-width" } else { "wrong-value" }, _ => "wrong-instruction" } };
                    r.viol(&format!("C18|Port<u{}>::write|{}", $bits, w), &case, &format!("{:x?}", ev));
                }
                let mut wo = PortWriteOnly::<$ty>::new(port);
                let (_, ev) = one(step, || unsafe { wo.write(exp) });
                if ev != [Ev::Out(port, $bits, v & $mask)] {
                    r.viol(&format!("C18|PortWriteOnly<u{}>::write|wrong-access", $bits), &case, &format!("{:x?}", ev));
                }
            }
        };
    }
    width!(u8, 8, 0xff);
    width!(u16, 16, 0xffff);
    width!(u32, 32, 0xffff_ffff);
}

/// multi-step sequences: every read is a separate device access (a device register may change between reads),
/// a read whose value is discarded is still performed, accesses keep their program order
pub fn sequences(r: &mut Rep, port: u16, step: bool) {
    macro_rules! seq {
        ($ty:ty, $bits:expr, $mask:expr) => {{
            let c = cpu();
            c.port_in = 0x1111_1101;
            c.port_in_step = 0x0101_0101;
            let mut p = Port::<$ty>::new(port);
            let (rv, ev) = one(step, || unsafe {
                let a = p.read();
                let b = p.read();
                let c = p.read();
                (a, b, c)
            });
            r.ev(true);
            r.transitions += ev.len() as u64;
            let e = [0x1111_1101u32 & $mask, 0x1212_1202 & $mask, 0x1313_1303 & $mask];
            let case = format!("portseq {} {} reads {}", port, $bits, step);
            if ev != [Ev::In(port, $bits, e[0]), Ev::In(port, $bits, e[1]), Ev::In(port, $bits, e[2])] {
                r.viol(&format!("C18|Port<u{}>::read|repeated-reads-are-not-one-port-instruction-each", $bits), &case, &format!("{:x?}", ev));
            } else if rv != Ok((e[0] as $ty, e[1] as $ty, e[2] as $ty)) {
                r.viol(&format!("C18|Port<u{}>::read|returns-other-value-than-the-device-supplied", $bits), &case, &format!("{:x?}", rv));
            }
            // out ; read (value discarded) ; out ; read ; out
            c.port_in = 0x7700_0077;
            c.port_in_step = 1;
            let mut q = Port::<$ty>::new(port ^ 1);
            let (_, ev) = one(step, || unsafe {
                p.write(0x5a as $ty);
                let _ = q.read();
                p.write(0xa5 as $ty);
                let v = q.read();
                p.write(v);
            });
            r.ev(true);
            r.transitions += ev.len() as u64;
            let case = format!("portseq {} {} ack {}", port, $bits, step);
            let exp = [Ev::Out(port, $bits, 0x5a), Ev::In(port ^ 1, $bits, 0x7700_0077 & $mask), Ev::Out(port, $bits, 0xa5), Ev::In(port ^ 1, $bits, 0x7700_0078 & $mask), Ev::Out(port, $bits, 0x7700_0078 & $mask)];
            if ev != exp {
                r.viol(&format!("C18|Port<u{}>|sequence-of-accesses-not-performed-one-by-one-in-order", $bits), &case, &format!("{:x?}", ev));
            }
            c.port_in_step = 0;
        }};
    }
    seq!(u8, 8, 0xff);
    seq!(u16, 16, 0xffff);
    seq!(u32, 32, 0xffff_ffff);
}

/// accesses through clones (clone / clone_from) go to the source's port
fn clone_access(r: &mut Rep) {
    for (a, b) in [(0x3f8u16, 0x2f8u16), (0, 0xffff), (0x80, 0x81), (0xcf8, 0xcfc), (0x1234, 0x1234)] {
        let mut p = Port::<u8>::new(a);
        p.clone_from(&Port::<u8>::new(b));
        let mut q = Port::<u32>::new(b).clone();
        cpu().port_in = 0x55;
        let (_, ev) = one(false, || unsafe {
            p.write(0x11);
            q.write(0x2222_3333);
            p.read()
        });
        r.ev(true);
        if ev != [Ev::Out(b, 8, 0x11), Ev::Out(b, 32, 0x2222_3333), Ev::In(b, 8, 0x55)] {
            r.viol("C18|Clone|access-through-a-clone-does-not-go-to-the-source's-port", &format!("portcloneaccess {} {}", a, b), &format!("{:x?}", ev));
        }
    }
}

fn eq_clone(r: &mut Rep) {
    let mut set: Vec<u16> = vec![0, 1, 0xff, 0x100, 0x3f8, 0xcf8, 0xcfc, 0x7fff, 0x8000, 0xfffe, 0xffff];
    for b in 0..16 {
        set.push(1 << b);
        set.push(!(1u16 << b));
    }
    for i in 0..260u32 {
        set.push((i * 251 + 7) as u16);
    }
    set.sort_unstable();
    set.dedup();
    for &a in &set {
        for &b in &set {
            r.ev(a == b);
            let e1 = Port::<u8>::new(a) == Port::<u8>::new(b);
            let e2 = PortReadOnly::<u16>::new(a) == PortReadOnly::<u16>::new(b);
            let e3 = PortWriteOnly::<u32>::new(a) == PortWriteOnly::<u32>::new(b);
            let c: PortGeneric<u32, ReadWriteAccess> = Port::<u32>::new(a).clone();
            let e4 = c == Port::<u32>::new(b);
            // clone_from must re-target the object: afterwards it is equal to (and refers to the port of) its source
            let mut d = Port::<u16>::new(a);
            d.clone_from(&Port::<u16>::new(b));
            let mut d8 = PortWriteOnly::<u8>::new(a);
            d8.clone_from(&PortWriteOnly::<u8>::new(b));
            if d != Port::<u16>::new(b) || d8 != PortWriteOnly::<u8>::new(b) || format!("{:?}", d) != format!("{:?}", Port::<u16>::new(b)) {
                r.viol("C18|Clone::clone_from|clone-does-not-refer-to-the-port-of-its-source", &format!("portclonefrom {} {}", a, b), &format!("{:?}", d));
            }
            // `!=` (PartialEq::ne) must be the negation of `==`
            let n1 = Port::<u8>::new(a) != Port::<u8>::new(b);
            let n2 = PortReadOnly::<u16>::new(a) != PortReadOnly::<u16>::new(b);
            let n3 = PortWriteOnly::<u32>::new(a) != PortWriteOnly::<u32>::new(b);
            if e1 != (a == b) || e2 != (a == b) || e3 != (a == b) || e4 != (a == b) || n1 == e1 || n2 == e2 || n3 == e3 {
                r.viol("C18|PartialEq/Clone|not-equal-exactly-when-port-numbers-are-equal", &format!("porteq {} {}", a, b), "");
            }
        }
    }
}

pub fn run(a: &Args) {
    crate::simcpu::init();
    let mut r = Rep::new("C18", "ports");
    if let Some(c) = &a.replay {
        let t: Vec<&str> = c.split_whitespace().collect();
        fault_mode_on();
        if t[0] == "port" {
            port_case(&mut r, t[1].parse().unwrap(), t[4] == "true");
        } else if t[0] == "portseq" {
            sequences(&mut r, t[1].parse().unwrap(), t[4] == "true");
        } else {
            eq_clone(&mut r);
        }
        r.emit();
        return;
    }
    // fault mode: all 65536 ports
    fault_mode_on();
    for p in 0..=u16::MAX {
        if p as usize % a.nshards == a.shard {
            guarded(&mut r, "C18|Port|unexpected-panic", || format!("port {} 8 0x0 false", p), |r| port_case(r, p, false));
            if p % 16 == 0 {
                guarded(&mut r, "C18|Port|unexpected-panic", || format!("portseq {} 8 reads false", p), |r| sequences(r, p, false));
            }
        }
    }
    // step mode: 200-port alphabet (no other sensitive instruction is executed: the event list is complete)
    let mut alpha: Vec<u16> = vec![0, 1, 0x20, 0x21, 0x60, 0x64, 0x70, 0x71, 0x80, 0xa0, 0xa1, 0x3f8, 0x3fd, 0xcf8, 0xcfc, 0x7fff, 0x8000, 0xfffe, 0xffff];
    for b in 0..16 {
        alpha.push(1 << b);
        alpha.push(!(1u16 << b));
    }
    for i in 0..150u32 {
        alpha.push((i * 433 + 19) as u16);
    }
    alpha.sort_unstable();
    alpha.dedup();
    for (i, &p) in alpha.iter().enumerate() {
        if i % a.nshards == a.shard {
            guarded(&mut r, "C18|Port|unexpected-panic", || format!("port {} 8 0x0 true", p), |r| port_case(r, p, true));
            guarded(&mut r, "C18|Port|unexpected-panic", || format!("portseq {} 8 reads true", p), |r| sequences(r, p, true));
        }
    }
    if a.shard == 0 {
        guarded(&mut r, "C18|PartialEq/Clone|unexpected-panic", || "porteq".into(), |r| eq_clone(r));
        guarded(&mut r, "C18|Clone|unexpected-panic", || "portcloneaccess".into(), |r| clone_access(r));
    }
    r.states = r.evals;
    r.exhaustive = true;
    r.sample("port 1016 16 0x80402010 false -> [In(0x3f8, 16, 0x2010)]".into());
    r.note(&format!("fault mode: all 65536 ports x 3 widths x read/write x Port/PortReadOnly/PortWriteOnly x 3-6 values; step mode ({} instructions stepped): {} ports, complete instruction stream observed", cpu().steps, alpha.len()));
    r.emit();
}
