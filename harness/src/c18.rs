//! C18 — port objects perform exactly one access of their width on their port (E4).
use crate::out::*;
use crate::simcpu::{cpu, fault_mode_on, run_stepped, run_window, Ev};
use crate::Args;
use x86_64::instructions::port::{Port, PortGeneric, PortReadOnly, PortWriteOnly, ReadWriteAccess};

const VALS: [u32; 6] = [0, 0xffff_ffff, 0x8040_2010, 0x0102_0408, 0xdead_beef, 0x7fff_ff7f];

fn one<R>(step: bool, f: impl FnOnce() -> R) -> (Result<R, ()>, Vec<Ev>) {
    cpu().clear_events();
    // fault mode stays on for the whole sweep (fault_mode_on): an access that the optimiser moved out of the call
    // is still emulated, but then it is missing from this call's event window
    let r = if step { let x = run_stepped(f); fault_mode_on(); x } else { run_window(f) };
    (r, cpu().evs())
}

pub fn port_case(r: &mut Rep, port: u16, step: bool) {
    macro_rules! width {
        ($ty:ty, $bits:expr, $mask:expr) => {
            for (vi, &v) in VALS.iter().enumerate() {
                if !step && vi >= 3 && port % 64 != 0 {
                    continue;
                }
                let case = format!("port {} {} {:#x} {}", port, $bits, v, step);
                // read through Port and PortReadOnly; canaries around the object
                cpu().port_in = v;
                let mut guard = (0xa5a5_a5a5_a5a5_a5a5u64, Port::<$ty>::new(port), 0x5a5a_5a5a_5a5a_5a5au64);
                let (rv, ev) = one(step, || unsafe { guard.1.read() });
                r.ev(true);
                r.transitions += ev.len() as u64;
                let exp = (v & $mask) as $ty;
                if ev != [Ev::In(port, $bits, v & $mask)] {
                    let w = if ev.len() != 1 { "not-exactly-one-port-instruction" } else { match ev[0] { Ev::In(p, b, _) => if p != port { "wrong-port" } else if b != $bits { "wrong-width" } else { "wrong-value" }, _ => "wrong-instruction" } };
                    r.viol(&format!("C18|Port<u{}>::read|{}", $bits, w), &case, &format!("{:x?}", ev));
                } else if rv != Ok(exp) {
                    r.viol(&format!("C18|Port<u{}>::read|returns-other-value-than-the-device-supplied", $bits), &case, &format!("{:x?} expected {:#x}", rv, exp));
                }
                if guard.0 != 0xa5a5_a5a5_a5a5_a5a5 || guard.2 != 0x5a5a_5a5a_5a5a_5a5a || guard.1 != Port::<$ty>::new(port) {
                    r.viol(&format!("C18|Port<u{}>::read|touches-memory", $bits), &case, "");
                }
                let mut ro = PortReadOnly::<$ty>::new(port);
                let (rv, ev) = one(step, || unsafe { ro.read() });
                if ev != [Ev::In(port, $bits, v & $mask)] || rv != Ok(exp) {
                    r.viol(&format!("C18|PortReadOnly<u{}>::read|wrong-access", $bits), &case, &format!("{:x?} {:x?}", rv, ev));
                }
                // write through Port and PortWriteOnly
                let mut p = Port::<$ty>::new(port);
                let (_, ev) = one(step, || unsafe { p.write(exp) });
                r.ev(true);
                r.transitions += ev.len() as u64;
                if ev != [Ev::Out(port, $bits, v & $mask)] {
                    let w = if ev.len() != 1 { "not-exactly-one-port-instruction" } else { match ev[0] { Ev::Out(q, b, _) => if q != port { "wrong-port" } else if b != $bits { "wrong-width" } else { "wrong-value" }, _ => "wrong-instruction" } };
                    r.viol(&format!("C18|Port<u{}>::write|{}", $bits, w), &case, &format!("{:x?}", ev));
                }
                let mut wo = PortWriteOnly::<$ty>::new(port);
                let (_, ev) = one(step, || unsafe { wo.write(exp) });
                if ev != [Ev::Out(port, $bits, v & $mask)] {
                    r.viol(&format!("C18|PortWriteOnly<u{}>::write|wrong-access", $bits), &case, &format!("{:x?}", ev));
                }
            }
        };
    }
    width!(u8, 8, 0xff);
    width!(u16, 16, 0xffff);
    width!(u32, 32, 0xffff_ffff);
}

/// multi-step sequences: every read is a separate device access (a device register may change between reads),
/// a read whose value is discarded is still performed, accesses keep their program order
pub fn sequences(r: &mut Rep, port: u16, step: bool) {
    macro_rules! seq {
        ($ty:ty, $bits:expr, $mask:expr) => {{
            let c = cpu();
            c.port_in = 0x1111_1101;
            c.port_in_step = 0x0101_0101;
            let mut p = Port::<$ty>::new(port);
            let (rv, ev) = one(step, || unsafe {
                let a = p.read();
                let b = p.read();
                let c = p.read();
                (a, b, c)
            });
            r.ev(true);
            r.transitions += ev.len() as u64;
            let e = [0x1111_1101u32 & $mask, 0x1212_1202 & $mask, 0x1313_1303 & $mask];
            let case = format!("portseq {} {} reads {}", port, $bits, step);
            if ev != [Ev::In(port, $bits, e[0]), Ev::In(port, $bits, e[1]), Ev::In(port, $bits, e[2])] {
                r.viol(&format!("C18|Port<u{}>::read|repeated-reads-are-not-one-port-instruction-each", $bits), &case, &format!("{:x?}", ev));
            } else if rv != Ok((e[0] as $ty, e[1] as $ty, e[2] as $ty)) {
                r.viol(&format!("C18|Port<u{}>::read|returns-other-value-than-the-device-supplied", $bits), &case, &format!("{:x?}", rv));
            }
            // out ; read (value discarded) ; out ; read ; out
            c.port_in = 0x7700_0077;
            c.port_in_step = 1;
            let mut q = Port::<$ty>::new(port ^ 1);
            let (_, ev) = one(step, || unsafe {
                p.write(0x5a as $ty);
                let _ = q.read();
                p.write(0xa5 as $ty);
                let v = q.read();
                p.write(v);
            });
            r.ev(true);
            r.transitions += ev.len() as u64;
            let case = format!("portseq {} {} ack {}", port, $bits, step);
            let exp = [Ev::Out(port, $bits, 0x5a), Ev::In(port ^ 1, $bits, 0x7700_0077 & $mask), Ev::Out(port, $bits, 0xa5), Ev::In(port ^ 1, $bits, 0x7700_0078 & $mask), Ev::Out(port, $bits, 0x7700_0078 & $mask)];
            if ev != exp {
                r.viol(&format!("C18|Port<u{}>|sequence-of-accesses-not-performed-one-by-one-in-order", $bits), &case, &format!("{:x?}", ev));
            }
            c.port_in_step = 0;
        }};
    }
    seq!(u8, 8, 0xff);
    seq!(u16, 16, 0xffff);
    seq!(u32, 32, 0xffff_ffff);
}

/// accesses through clones (clone / clone_from) go to the source's port
fn clone_access(r: &mut Rep) {
    for (a, b) in [(0x3f8u16, 0x2f8u16), (0, 0xffff), (0x80, 0x81), (0xcf8, 0xcfc), (0x1234, 0x1234)] {
        let mut p = Port::<u8>::new(a);
        p.clone_from(&Port::<u8>::new(b));
        let mut q = Port::<u32>::new(b).clone();
        cpu().port_in = 0x55;
        let (_, ev) = one(false, || unsafe {
            p.write(0x11);
            q.write(0x2222_3333);
            p.read()
        });
        r.ev(true);
        if ev != [Ev::Out(b, 8, 0x11), Ev::Out(b, 32, 0x2222_3333), Ev::In(b, 8, 0x55)] {
            r.viol("C18|Clone|access-through-a-clone-does-not-go-to-the-source's-port", &format!("portcloneaccess {} {}", a, b), &format!("{:x?}", ev));
        }
    }
}

/// equality over ALL pairs of port numbers (2^32 comparisons per type, sharded by the first operand): equal exactly when the
/// numbers are equal, `!=` its negation
fn eq_all_pairs(r: &mut Rep, a: &Args) {
    let mut bad: Option<(u16, u16)> = None;
    let mut n = 0u64;
    let stride = if a.thorough() { 1 } else { 4 }; // quick: every fourth first operand per shard plus the port alphabet below
    for x in (0..=u16::MAX).filter(|x| *x as usize % a.nshards == a.shard) {
        if !(x as usize / a.nshards % stride == 0 || x.count_ones() <= 2 || x.count_zeros() <= 2 || (0x20..0x100).contains(&x) || (0x3b0..0x400).contains(&x) || (0xcf8..0xd00).contains(&x)) {
            continue;
        }
        let (p8, p16, p32) = (Port::<u8>::new(x), PortReadOnly::<u16>::new(x), PortWriteOnly::<u32>::new(x));
        for y in 0..=u16::MAX {
            let (q8, q16, q32) = (Port::<u8>::new(y), PortReadOnly::<u16>::new(y), PortWriteOnly::<u32>::new(y));
            let e = x == y;
            let p8 = std::hint::black_box(&p8);
            if ((*p8 == q8) != e) | ((q8 == *p8) != e) | ((p16 == q16) != e) | ((p32 == q32) != e) | ((*p8 != q8) == e) | ((p16 != q16) == e) | ((p32 != q32) == e) {
                bad.get_or_insert((x, y));
            }
        }
        n += 65536;
    }
    r.evals += n;
    r.transitions += n;
    if let Some((x, y)) = bad {
        r.viol("C18|PartialEq|not-equal-exactly-when-port-numbers-are-equal-(all-pairs-sweep)", &format!("porteq {} {}", x, y), "");
    }
}

fn eq_clone(r: &mut Rep) {
    let mut set: Vec<u16> = vec![0, 1, 0xff, 0x100, 0x3f8, 0xcf8, 0xcfc, 0x7fff, 0x8000, 0xfffe, 0xffff];
    for b in 0..16 {
        set.push(1 << b);
        set.push(!(1u16 << b));
    }
    for i in 0..260u32 {
        set.push((i * 251 + 7) as u16);
    }
    set.sort_unstable();
    set.dedup();
    for &a in &set {
        for &b in &set {
            r.ev(a == b);
            let e1 = Port::<u8>::new(a) == Port::<u8>::new(b);
            let e2 = PortReadOnly::<u16>::new(a) == PortReadOnly::<u16>::new(b);
            let e3 = PortWriteOnly::<u32>::new(a) == PortWriteOnly::<u32>::new(b);
            let c: PortGeneric<u32, ReadWriteAccess> = Port::<u32>::new(a).clone();
            let e4 = c == Port::<u32>::new(b);
            // clone_from must re-target the object: afterwards it is equal to (and refers to the port of) its source
            let mut d = Port::<u16>::new(a);
            d.clone_from(&Port::<u16>::new(b));
            let mut d8 = PortWriteOnly::<u8>::new(a);
            d8.clone_from(&PortWriteOnly::<u8>::new(b));
            if d != Port::<u16>::new(b) || d8 != PortWriteOnly::<u8>::new(b) || format!("{:?}", d) != format!("{:?}", Port::<u16>::new(b)) {
                r.viol("C18|Clone::clone_from|clone-does-not-refer-to-the-port-of-its-source", &format!("portclonefrom {} {}", a, b), &format!("{:?}", d));
            }
            // `!=` (PartialEq::ne) must be the negation of `==`
            let n1 = Port::<u8>::new(a) != Port::<u8>::new(b);
            let n2 = PortReadOnly::<u16>::new(a) != PortReadOnly::<u16>::new(b);
            let n3 = PortWriteOnly::<u32>::new(a) != PortWriteOnly::<u32>::new(b);
            if e1 != (a == b) || e2 != (a == b) || e3 != (a == b) || e4 != (a == b) || n1 == e1 || n2 == e2 || n3 == e3 {
                r.viol("C18|PartialEq/Clone|not-equal-exactly-when-port-numbers-are-equal", &format!("porteq {} {}", a, b), "");
            }
        }
    }
}


// ---------------------------------------------------------------------------------------------- register-allocation contexts
// The port number and the value reach the `in`/`out` block in whatever registers the surrounding code left them. These
// non-inlined call sites receive six integer arguments (rdi, rsi, rdx, rcx, r8, r9 in the System V ABI) and use argument
// I as port number and argument J as value, keeping the others alive across the access, so that every pairing of incoming
// registers - including value-in-rdx / port-in-rax-after-a-multiply - is exercised by the optimised builds.
macro_rules! site_w {
    ($name:ident, $ty:ty, $i:tt, $j:tt) => {
        #[inline(never)]
        fn $name(a: [u64; 0], a0: u64, a1: u64, a2: u64, a3: u64, a4: u64, a5: u64) -> u64 {
            let _ = a;
            let args = (a0, a1, a2, a3, a4, a5);
            let mut p = Port::<$ty>::new(args.$i as u16);
            unsafe { p.write(args.$j as $ty) };
            a0 ^ a1.rotate_left(7) ^ a2.rotate_left(13) ^ a3.rotate_left(19) ^ a4.rotate_left(29) ^ a5.rotate_left(37)
        }
    };
}
macro_rules! site_r {
    ($name:ident, $ty:ty, $i:tt) => {
        #[inline(never)]
        fn $name(a0: u64, a1: u64, a2: u64, a3: u64, a4: u64, a5: u64) -> (u64, u64) {
            let args = (a0, a1, a2, a3, a4, a5);
            let mut p = Port::<$ty>::new(args.$i as u16);
            let v = unsafe { p.read() } as u64;
            (v, a0 ^ a1.rotate_left(7) ^ a2.rotate_left(13) ^ a3.rotate_left(19) ^ a4.rotate_left(29) ^ a5.rotate_left(37))
        }
    };
}
/// value = high half of a widening multiply (rdx after `mul`), port = low half (rax)
#[inline(never)]
fn site_mul16(x: u64, y: u64) {
    let m = (x as u128) * (y as u128);
    let mut p = Port::<u16>::new(m as u64 as u16);
    unsafe { p.write((m >> 64) as u64 as u16) };
}
#[inline(never)]
fn site_mul8(x: u64, y: u64) {
    let m = (x as u128) * (y as u128);
    let mut p = Port::<u8>::new(m as u64 as u16);
    unsafe { p.write((m >> 64) as u64 as u8) };
}
#[inline(never)]
fn site_mul32(x: u64, y: u64) {
    let m = (x as u128) * (y as u128);
    let mut p = Port::<u32>::new(m as u64 as u16);
    unsafe { p.write((m >> 64) as u64 as u32) };
}

site_w!(sw8_01, u8, 0, 1);
site_w!(sw8_02, u8, 0, 2);
site_w!(sw8_03, u8, 0, 3);
site_w!(sw8_04, u8, 0, 4);
site_w!(sw8_05, u8, 0, 5);
site_w!(sw8_10, u8, 1, 0);
site_w!(sw8_12, u8, 1, 2);
site_w!(sw8_13, u8, 1, 3);
site_w!(sw8_14, u8, 1, 4);
site_w!(sw8_15, u8, 1, 5);
site_w!(sw8_20, u8, 2, 0);
site_w!(sw8_21, u8, 2, 1);
site_w!(sw8_23, u8, 2, 3);
site_w!(sw8_24, u8, 2, 4);
site_w!(sw8_25, u8, 2, 5);
site_w!(sw8_30, u8, 3, 0);
site_w!(sw8_31, u8, 3, 1);
site_w!(sw8_32, u8, 3, 2);
site_w!(sw8_34, u8, 3, 4);
site_w!(sw8_35, u8, 3, 5);
site_w!(sw8_40, u8, 4, 0);
site_w!(sw8_41, u8, 4, 1);
site_w!(sw8_42, u8, 4, 2);
site_w!(sw8_43, u8, 4, 3);
site_w!(sw8_45, u8, 4, 5);
site_w!(sw8_50, u8, 5, 0);
site_w!(sw8_51, u8, 5, 1);
site_w!(sw8_52, u8, 5, 2);
site_w!(sw8_53, u8, 5, 3);
site_w!(sw8_54, u8, 5, 4);
site_w!(sw16_01, u16, 0, 1);
site_w!(sw16_02, u16, 0, 2);
site_w!(sw16_03, u16, 0, 3);
site_w!(sw16_04, u16, 0, 4);
site_w!(sw16_05, u16, 0, 5);
site_w!(sw16_10, u16, 1, 0);
site_w!(sw16_12, u16, 1, 2);
site_w!(sw16_13, u16, 1, 3);
site_w!(sw16_14, u16, 1, 4);
site_w!(sw16_15, u16, 1, 5);
site_w!(sw16_20, u16, 2, 0);
site_w!(sw16_21, u16, 2, 1);
site_w!(sw16_23, u16, 2, 3);
site_w!(sw16_24, u16, 2, 4);
site_w!(sw16_25, u16, 2, 5);
site_w!(sw16_30, u16, 3, 0);
site_w!(sw16_31, u16, 3, 1);
site_w!(sw16_32, u16, 3, 2);
site_w!(sw16_34, u16, 3, 4);
site_w!(sw16_35, u16, 3, 5);
site_w!(sw16_40, u16, 4, 0);
site_w!(sw16_41, u16, 4, 1);
site_w!(sw16_42, u16, 4, 2);
site_w!(sw16_43, u16, 4, 3);
site_w!(sw16_45, u16, 4, 5);
site_w!(sw16_50, u16, 5, 0);
site_w!(sw16_51, u16, 5, 1);
site_w!(sw16_52, u16, 5, 2);
site_w!(sw16_53, u16, 5, 3);
site_w!(sw16_54, u16, 5, 4);
site_w!(sw32_01, u32, 0, 1);
site_w!(sw32_02, u32, 0, 2);
site_w!(sw32_03, u32, 0, 3);
site_w!(sw32_04, u32, 0, 4);
site_w!(sw32_05, u32, 0, 5);
site_w!(sw32_10, u32, 1, 0);
site_w!(sw32_12, u32, 1, 2);
site_w!(sw32_13, u32, 1, 3);
site_w!(sw32_14, u32, 1, 4);
site_w!(sw32_15, u32, 1, 5);
site_w!(sw32_20, u32, 2, 0);
site_w!(sw32_21, u32, 2, 1);
site_w!(sw32_23, u32, 2, 3);
site_w!(sw32_24, u32, 2, 4);
site_w!(sw32_25, u32, 2, 5);
site_w!(sw32_30, u32, 3, 0);
site_w!(sw32_31, u32, 3, 1);
site_w!(sw32_32, u32, 3, 2);
site_w!(sw32_34, u32, 3, 4);
site_w!(sw32_35, u32, 3, 5);
site_w!(sw32_40, u32, 4, 0);
site_w!(sw32_41, u32, 4, 1);
site_w!(sw32_42, u32, 4, 2);
site_w!(sw32_43, u32, 4, 3);
site_w!(sw32_45, u32, 4, 5);
site_w!(sw32_50, u32, 5, 0);
site_w!(sw32_51, u32, 5, 1);
site_w!(sw32_52, u32, 5, 2);
site_w!(sw32_53, u32, 5, 3);
site_w!(sw32_54, u32, 5, 4);
site_r!(sr8_0, u8, 0);
site_r!(sr8_1, u8, 1);
site_r!(sr8_2, u8, 2);
site_r!(sr8_3, u8, 3);
site_r!(sr8_4, u8, 4);
site_r!(sr8_5, u8, 5);
site_r!(sr16_0, u16, 0);
site_r!(sr16_1, u16, 1);
site_r!(sr16_2, u16, 2);
site_r!(sr16_3, u16, 3);
site_r!(sr16_4, u16, 4);
site_r!(sr16_5, u16, 5);
site_r!(sr32_0, u32, 0);
site_r!(sr32_1, u32, 1);
site_r!(sr32_2, u32, 2);
site_r!(sr32_3, u32, 3);
site_r!(sr32_4, u32, 4);
site_r!(sr32_5, u32, 5);

fn regalloc_sites(r: &mut Rep) {
    use std::hint::black_box as bb;
    let argsets: [[u64; 6]; 3] = [
        [0x0000_1111_0000_03f8, 0x0000_2222_0000_8421, 0x0000_3333_0000_0cf8, 0x0000_4444_0000_a55a, 0x0000_5555_0000_ffff, 0x0000_6666_0000_0001],
        [0xfedc_ba98_7654_3210, 0x0123_4567_89ab_cdef, 0x9e37_79b9_7f4a_7c15, 0x0000_0000_ffff_0000, 0x8000_0000_0000_8000, 0x7fff_7fff_7fff_7fff],
        [0, u64::MAX, 0x80, 0x8080_8080_8080_8080, 0x1_0000, 0xffff_fffe],
    ];
    let wsites: &[(&str, u32, usize, usize, fn([u64; 0], u64, u64, u64, u64, u64, u64) -> u64)] = &[
        ("sw8_01", 8, 0, 1, sw8_01),
        ("sw8_02", 8, 0, 2, sw8_02),
        ("sw8_03", 8, 0, 3, sw8_03),
        ("sw8_04", 8, 0, 4, sw8_04),
        ("sw8_05", 8, 0, 5, sw8_05),
        ("sw8_10", 8, 1, 0, sw8_10),
        ("sw8_12", 8, 1, 2, sw8_12),
        ("sw8_13", 8, 1, 3, sw8_13),
        ("sw8_14", 8, 1, 4, sw8_14),
        ("sw8_15", 8, 1, 5, sw8_15),
        ("sw8_20", 8, 2, 0, sw8_20),
        ("sw8_21", 8, 2, 1, sw8_21),
        ("sw8_23", 8, 2, 3, sw8_23),
        ("sw8_24", 8, 2, 4, sw8_24),
        ("sw8_25", 8, 2, 5, sw8_25),
        ("sw8_30", 8, 3, 0, sw8_30),
        ("sw8_31", 8, 3, 1, sw8_31),
        ("sw8_32", 8, 3, 2, sw8_32),
        ("sw8_34", 8, 3, 4, sw8_34),
        ("sw8_35", 8, 3, 5, sw8_35),
        ("sw8_40", 8, 4, 0, sw8_40),
        ("sw8_41", 8, 4, 1, sw8_41),
        ("sw8_42", 8, 4, 2, sw8_42),
        ("sw8_43", 8, 4, 3, sw8_43),
        ("sw8_45", 8, 4, 5, sw8_45),
        ("sw8_50", 8, 5, 0, sw8_50),
        ("sw8_51", 8, 5, 1, sw8_51),
        ("sw8_52", 8, 5, 2, sw8_52),
        ("sw8_53", 8, 5, 3, sw8_53),
        ("sw8_54", 8, 5, 4, sw8_54),
        ("sw16_01", 16, 0, 1, sw16_01),
        ("sw16_02", 16, 0, 2, sw16_02),
        ("sw16_03", 16, 0, 3, sw16_03),
        ("sw16_04", 16, 0, 4, sw16_04),
        ("sw16_05", 16, 0, 5, sw16_05),
        ("sw16_10", 16, 1, 0, sw16_10),
        ("sw16_12", 16, 1, 2, sw16_12),
        ("sw16_13", 16, 1, 3, sw16_13),
        ("sw16_14", 16, 1, 4, sw16_14),
        ("sw16_15", 16, 1, 5, sw16_15),
        ("sw16_20", 16, 2, 0, sw16_20),
        ("sw16_21", 16, 2, 1, sw16_21),
        ("sw16_23", 16, 2, 3, sw16_23),
        ("sw16_24", 16, 2, 4, sw16_24),
        ("sw16_25", 16, 2, 5, sw16_25),
        ("sw16_30", 16, 3, 0, sw16_30),
        ("sw16_31", 16, 3, 1, sw16_31),
        ("sw16_32", 16, 3, 2, sw16_32),
        ("sw16_34", 16, 3, 4, sw16_34),
        ("sw16_35", 16, 3, 5, sw16_35),
        ("sw16_40", 16, 4, 0, sw16_40),
        ("sw16_41", 16, 4, 1, sw16_41),
        ("sw16_42", 16, 4, 2, sw16_42),
        ("sw16_43", 16, 4, 3, sw16_43),
        ("sw16_45", 16, 4, 5, sw16_45),
        ("sw16_50", 16, 5, 0, sw16_50),
        ("sw16_51", 16, 5, 1, sw16_51),
        ("sw16_52", 16, 5, 2, sw16_52),
        ("sw16_53", 16, 5, 3, sw16_53),
        ("sw16_54", 16, 5, 4, sw16_54),
        ("sw32_01", 32, 0, 1, sw32_01),
        ("sw32_02", 32, 0, 2, sw32_02),
        ("sw32_03", 32, 0, 3, sw32_03),
        ("sw32_04", 32, 0, 4, sw32_04),
        ("sw32_05", 32, 0, 5, sw32_05),
        ("sw32_10", 32, 1, 0, sw32_10),
        ("sw32_12", 32, 1, 2, sw32_12),
        ("sw32_13", 32, 1, 3, sw32_13),
        ("sw32_14", 32, 1, 4, sw32_14),
        ("sw32_15", 32, 1, 5, sw32_15),
        ("sw32_20", 32, 2, 0, sw32_20),
        ("sw32_21", 32, 2, 1, sw32_21),
        ("sw32_23", 32, 2, 3, sw32_23),
        ("sw32_24", 32, 2, 4, sw32_24),
        ("sw32_25", 32, 2, 5, sw32_25),
        ("sw32_30", 32, 3, 0, sw32_30),
        ("sw32_31", 32, 3, 1, sw32_31),
        ("sw32_32", 32, 3, 2, sw32_32),
        ("sw32_34", 32, 3, 4, sw32_34),
        ("sw32_35", 32, 3, 5, sw32_35),
        ("sw32_40", 32, 4, 0, sw32_40),
        ("sw32_41", 32, 4, 1, sw32_41),
        ("sw32_42", 32, 4, 2, sw32_42),
        ("sw32_43", 32, 4, 3, sw32_43),
        ("sw32_45", 32, 4, 5, sw32_45),
        ("sw32_50", 32, 5, 0, sw32_50),
        ("sw32_51", 32, 5, 1, sw32_51),
        ("sw32_52", 32, 5, 2, sw32_52),
        ("sw32_53", 32, 5, 3, sw32_53),
        ("sw32_54", 32, 5, 4, sw32_54),
    ];
    let rsites: &[(&str, u32, usize, fn(u64, u64, u64, u64, u64, u64) -> (u64, u64))] = &[
        ("sr8_0", 8, 0, sr8_0),
        ("sr8_1", 8, 1, sr8_1),
        ("sr8_2", 8, 2, sr8_2),
        ("sr8_3", 8, 3, sr8_3),
        ("sr8_4", 8, 4, sr8_4),
        ("sr8_5", 8, 5, sr8_5),
        ("sr16_0", 16, 0, sr16_0),
        ("sr16_1", 16, 1, sr16_1),
        ("sr16_2", 16, 2, sr16_2),
        ("sr16_3", 16, 3, sr16_3),
        ("sr16_4", 16, 4, sr16_4),
        ("sr16_5", 16, 5, sr16_5),
        ("sr32_0", 32, 0, sr32_0),
        ("sr32_1", 32, 1, sr32_1),
        ("sr32_2", 32, 2, sr32_2),
        ("sr32_3", 32, 3, sr32_3),
        ("sr32_4", 32, 4, sr32_4),
        ("sr32_5", 32, 5, sr32_5),
    ];
    for a in argsets {
        let keep = a[0] ^ a[1].rotate_left(7) ^ a[2].rotate_left(13) ^ a[3].rotate_left(19) ^ a[4].rotate_left(29) ^ a[5].rotate_left(37);
        for &(n, bits, i, j, f) in wsites {
            let mask: u64 = if bits == 32 { 0xffff_ffff } else { (1u64 << bits) - 1 };
            let (rv, ev) = one(false, || f(bb([]), bb(a[0]), bb(a[1]), bb(a[2]), bb(a[3]), bb(a[4]), bb(a[5])));
            r.ev(true);
            r.transitions += ev.len() as u64;
            if ev != [Ev::Out(a[i] as u16, bits as u8, (a[j] & mask) as u32)] || rv != Ok(keep) {
                r.viol(&format!("C18|Port<u{}>::write|wrong-access-when-port-and-value-arrive-in-other-registers", bits), &format!("portsite {} args {:x?}", n, a), &format!("{:x?} expected Out({:#x}, {}, {:#x}); other values kept: {}", ev, a[i] as u16, bits, a[j] & mask, rv == Ok(keep)));
            }
        }
        for &(n, bits, i, f) in rsites {
            let mask: u64 = if bits == 32 { 0xffff_ffff } else { (1u64 << bits) - 1 };
            cpu().port_in = 0xc3d2_e1f0;
            let (rv, ev) = one(false, || f(bb(a[0]), bb(a[1]), bb(a[2]), bb(a[3]), bb(a[4]), bb(a[5])));
            r.ev(true);
            r.transitions += ev.len() as u64;
            if ev != [Ev::In(a[i] as u16, bits as u8, (0xc3d2_e1f0u64 & mask) as u32)] || rv != Ok((0xc3d2_e1f0u64 & mask, keep)) {
                r.viol(&format!("C18|Port<u{}>::read|wrong-access-or-clobbered-neighbour-when-the-port-arrives-in-another-register", bits), &format!("portsite {} args {:x?}", n, a), &format!("{:x?} {:x?}", ev, rv));
            }
        }
    }
    for (x, y) in [(0x1_0000_03f8u64, 0xabcd_0000_0000u64), (0xffff_ffff_ffff_ffff, 0xffff_ffff_ffff_ffff), (0x9e37_79b9_7f4a_7c15, 0xd1b5_4a32_d192_ed03), (3, 5)] {
        let m = (x as u128) * (y as u128);
        let (port, hi) = (m as u64 as u16, (m >> 64) as u64);
        for (bits, f) in [(8u8, site_mul8 as fn(u64, u64)), (16, site_mul16), (32, site_mul32)] {
            let mask: u64 = if bits == 32 { 0xffff_ffff } else { (1u64 << bits) - 1 };
            let (_, ev) = one(false, || f(bb(x), bb(y)));
            r.ev(true);
            if ev != [Ev::Out(port, bits, (hi & mask) as u32)] {
                r.viol(&format!("C18|Port<u{}>::write|wrong-access-when-port-and-value-arrive-in-other-registers", bits), &format!("portsite mul{} {:#x} {:#x}", bits, x, y), &format!("{:x?} expected Out({:#x}, {}, {:#x})", ev, port, bits, hi & mask));
            }
        }
    }
}

// ---------------------------------------------------------------------------------------------- instruction audit (step mode)
#[inline(never)]
fn audit_r8(p: u16) -> u8 { unsafe { Port::<u8>::new(p).read() } }
#[inline(never)]
fn audit_r16(p: u16) -> u16 { unsafe { Port::<u16>::new(p).read() } }
#[inline(never)]
fn audit_r32(p: u16) -> u32 { unsafe { Port::<u32>::new(p).read() } }
#[inline(never)]
fn audit_w8(p: u16, v: u8) { unsafe { Port::<u8>::new(p).write(v) } }
#[inline(never)]
fn audit_w16(p: u16, v: u16) { unsafe { Port::<u16>::new(p).write(v) } }
#[inline(never)]
fn audit_w32(p: u16, v: u32) { unsafe { Port::<u32>::new(p).write(v) } }

/// a function that consists of one port access only is single-stepped and every instruction it executes is classified: apart
/// from the port instruction itself only register-to-register moves, stack-frame bookkeeping and the return may appear —
/// nothing that writes flags, memory or another register behind the compiler's back ("exactly one port instruction ...
/// without touching memory")
fn instruction_audit(r: &mut Rep) {
    fn classify(b: &[u8; 4]) -> &'static str {
        let mut i = 0;
        while i < 3 && (b[i] == 0x66 || (0x40..=0x4f).contains(&b[i])) {
            i += 1;
        }
        match b[i] {
            0xec..=0xef | 0xe4..=0xe7 => "port",
            0x89 | 0x8b | 0x88 | 0x8a if i + 1 < 4 && b[i + 1] >= 0xc0 => "mov-reg-reg",
            0x0f if i + 2 < 4 && (b[i + 1] == 0xb6 || b[i + 1] == 0xb7) && b[i + 2] >= 0xc0 => "movzx-reg-reg",
            0x0f if b[i + 1] == 0x1f => "nop",
            0xc3 => "ret",
            0x55 | 0x5d | 0x90 => "frame/nop",
            0xf3 if b[1] == 0x0f && b[2] == 0x1e => "endbr",
            _ => "other",
        }
    }
    let sites: [(&str, u64, Box<dyn Fn()>); 6] = [
        ("Port<u8>::read", audit_r8 as usize as u64, Box::new(|| { std::hint::black_box(audit_r8(std::hint::black_box(0x3f8))); })),
        ("Port<u16>::read", audit_r16 as usize as u64, Box::new(|| { std::hint::black_box(audit_r16(std::hint::black_box(0x3f8))); })),
        ("Port<u32>::read", audit_r32 as usize as u64, Box::new(|| { std::hint::black_box(audit_r32(std::hint::black_box(0x3f8))); })),
        ("Port<u8>::write", audit_w8 as usize as u64, Box::new(|| audit_w8(std::hint::black_box(0x3f8), std::hint::black_box(0x5a)))),
        ("Port<u16>::write", audit_w16 as usize as u64, Box::new(|| audit_w16(std::hint::black_box(0x3f8), std::hint::black_box(0x5aa5)))),
        ("Port<u32>::write", audit_w32 as usize as u64, Box::new(|| audit_w32(std::hint::black_box(0x3f8), std::hint::black_box(0x5aa5_1234)))),
    ];
    for (name, addr, f) in sites.iter() {
        let c = cpu();
        c.trace_lo = *addr;
        c.trace_hi = *addr + 64;
        c.nitrace = 0;
        c.clear_events();
        let _ = run_stepped(|| f());
        fault_mode_on();
        c.trace_lo = 0;
        c.trace_hi = 0;
        r.ev(true);
        let tr: Vec<(u64, [u8; 4])> = c.itrace[..c.nitrace].to_vec();
        // the function body ends at its first ret
        let body: Vec<&(u64, [u8; 4])> = tr.iter().take_while(|(_, b)| classify(b) != "ret").collect();
        let ports = body.iter().filter(|(_, b)| classify(b) == "port").count();
        let other: Vec<String> = body.iter().filter(|(_, b)| classify(b) == "other").map(|(a, b)| format!("{:#x}: {:02x?}", a, b)).collect();
        if tr.is_empty() || ports != 1 || !other.is_empty() {
            r.viol(&format!("C18|{}|wrapper-executes-other-instructions-than-one-port-access-and-register-moves", name), &format!("portaudit {}", name), &format!("{} port instructions; other: {:?}; trace {:02x?}", ports, other, tr.iter().map(|(_, b)| b).collect::<Vec<_>>()));
        }
    }
}

/// the same object used 70,000 times: call number k behaves like call number 1 (no counter, cache or warm-up effect)
/// values of up to `k` set bits (and their complements) of a `bits`-wide word
fn few_bit_values(bits: u32, k: u32) -> Vec<u32> {
    let mask = if bits == 32 { u32::MAX } else { (1u32 << bits) - 1 };
    let mut v = vec![0u32, mask];
    for a in 0..bits {
        v.push(1 << a);
        for b in 0..a {
            if k >= 2 {
                v.push(1 << a | 1 << b);
            }
            for c in 0..b {
                if k >= 3 {
                    v.push(1 << a | 1 << b | 1 << c);
                }
            }
        }
    }
    let n = v.len();
    for i in 0..n {
        v.push(!v[i] & mask);
    }
    v.sort_unstable();
    v.dedup();
    v
}

/// the transferred value is the given value on EVERY port: a port number x value cross product (`k` = set bits per value)
pub fn value_sweep(r: &mut Rep, port: u16, k: u32) {
    macro_rules! width {
        ($ty:ty, $bits:expr) => {{
            let vals: Vec<u32> = if $bits == 8 { (0..256).collect() } else { few_bit_values($bits, k) };
            let mut w = PortWriteOnly::<$ty>::new(port);
            let mut rd = PortReadOnly::<$ty>::new(port);
            let mut rw = Port::<$ty>::new(port);
            for &v in &vals {
                let (_, ev) = one(false, || unsafe { w.write(v as $ty) });
                cpu().port_in = v ^ 0xffff_0000u32.rotate_left($bits);
                let exp = cpu().port_in & (u32::MAX >> (32 - $bits));
                let (rv, ev2) = one(false, || unsafe { rd.read() });
                let (_, ev3) = one(false, || unsafe { rw.write(v as $ty) });
                r.transitions += 3;
                if ev != [Ev::Out(port, $bits, v)] || ev3 != [Ev::Out(port, $bits, v)] {
                    r.viol(&format!("C18|Port<u{}>::write|transfers-another-value-than-the-given-one-(port-x-value-sweep)", $bits), &format!("portvals {} {}", port, k), &format!("value {:#x}: {:x?} {:x?}", v, ev, ev3));
                    break;
                }
                if ev2 != [Ev::In(port, $bits, exp)] || rv != Ok(exp as $ty) {
                    r.viol(&format!("C18|Port<u{}>::read|returns-another-value-than-the-device-supplied-(port-x-value-sweep)", $bits), &format!("portvals {} {}", port, k), &format!("value {:#x}: {:x?} {:x?}", exp, rv, ev2));
                    break;
                }
            }
            r.ev(true);
        }};
    }
    width!(u8, 8);
    width!(u16, 16);
    width!(u32, 32);
}

// Call sites that keep a condition alive in the arithmetic flags across a port access (the port wrappers promise to leave the
// arithmetic flags alone): decrement, access, then branch on "counter reached zero".
#[inline(never)]
fn flag_site_expired(out: &mut [u64; 2]) {
    unsafe { core::ptr::write_volatile(&mut out[1], 0xaaaa) };
}
macro_rules! flag_site {
    ($name:ident, |$p:ident, $x:ident| $body:expr) => {
        #[inline(never)]
        fn $name(counter: &mut u64, $p: u16, $x: u64) -> (u64, u64) {
            *counter -= 1;
            let zero = *counter == 0;
            let v: u64 = unsafe { $body };
            let mut out = [0u64; 2];
            if zero {
                unsafe { core::ptr::write_volatile(&mut out[0], v) };
                flag_site_expired(&mut out);
            } else {
                unsafe { core::ptr::write_volatile(&mut out[0], v) };
                unsafe { core::ptr::write_volatile(&mut out[1], 0x5555) };
            }
            (unsafe { core::ptr::read_volatile(&out[0]) }, unsafe { core::ptr::read_volatile(&out[1]) })
        }
    };
}
flag_site!(fl_r8, |p, _x| Port::<u8>::new(p).read() as u64);
flag_site!(fl_r16, |p, _x| PortReadOnly::<u16>::new(p).read() as u64);
flag_site!(fl_r32, |p, _x| Port::<u32>::new(p).read() as u64);
flag_site!(fl_w8, |p, x| { Port::<u8>::new(p).write(x as u8); x });
flag_site!(fl_w16, |p, x| { PortWriteOnly::<u16>::new(p).write(x as u16); x });
flag_site!(fl_w32, |p, x| { Port::<u32>::new(p).write(x as u32); x });

fn flag_sites(r: &mut Rep) {
    let sites: &[(&str, fn(&mut u64, u16, u64) -> (u64, u64))] = &[("Port<u8>::read", fl_r8), ("PortReadOnly<u16>::read", fl_r16), ("Port<u32>::read", fl_r32), ("Port<u8>::write", fl_w8), ("PortWriteOnly<u16>::write", fl_w16), ("Port<u32>::write", fl_w32)];
    for &(name, f) in sites {
        for step in [false, true] {
            for (port, x) in [(0u16, 0u64), (0x3f8, 0xffff_ffff), (0xcf8, 0x8000_0001), (0xffff, 0x80)] {
                for start in [1u64, 2, 3] {
                    cpu().port_in = x as u32;
                    use std::hint::black_box as bb;
                    let mut counter = bb(start);
                    let (rv, _) = one(step, || f(&mut counter, bb(port), bb(x)));
                    r.ev(true);
                    let want = if start == 1 { 0xaaaa } else { 0x5555 };
                    if rv.map(|v| v.1) != Ok(want) || counter != start - 1 {
                        r.viol(&format!("C18|{}|condition-computed-before-the-access-is-wrong-after-it-(arithmetic-flags-not-preserved)", name), &format!("portflags {} {} {:#x} {}", port, step, x, start), &format!("{:x?} expected {:#x}", rv, want));
                    }
                }
            }
        }
    }
    fault_mode_on();
}

fn repetition(r: &mut Rep) {
    macro_rules! rep {
        ($ty:ty, $bits:expr, $mask:expr) => {{
            let mut p = Port::<$ty>::new(0x3f8);
            let mut q = PortWriteOnly::<$ty>::new(0x3f9);
            for k in 0..70_000u32 {
                let v = k.wrapping_mul(0x9e37_79b9) ^ 0x5a5a_a5a5;
                cpu().port_in = v;
                let (rv, ev) = one(false, || unsafe { p.read() });
                let (_, ev2) = one(false, || unsafe { q.write((v >> 3) as $ty) });
                r.transitions += 2;
                if ev != [Ev::In(0x3f8, $bits, v & $mask)] || rv != Ok((v & $mask) as $ty) || ev2 != [Ev::Out(0x3f9, $bits, (v >> 3) & $mask)] {
                    r.viol(&format!("C18|Port<u{}>|call-number-k-differs-from-the-first-call", $bits), &format!("portrepeat {} {}", $bits, k), &format!("{:x?} {:x?} {:x?}", rv, ev, ev2));
                    break;
                }
            }
        }};
    }
    rep!(u8, 8, 0xff);
    rep!(u16, 16, 0xffff);
    rep!(u32, 32, 0xffff_ffff);
}

pub fn run(a: &Args) {
    crate::simcpu::init();
    let mut r = Rep::new("C18", "ports");
    if let Some(c) = &a.replay {
        let t: Vec<&str> = c.split_whitespace().collect();
        fault_mode_on();
        if t[0] == "port" {
            port_case(&mut r, t[1].parse().unwrap(), t[4] == "true");
        } else if t[0] == "portaudit" {
            instruction_audit(&mut r);
        } else if t[0] == "portflags" {
            flag_sites(&mut r);
        } else if t[0] == "portrepeat" {
            repetition(&mut r);
        } else if t[0] == "portsite" {
            regalloc_sites(&mut r);
        } else if t[0] == "portvals" {
            value_sweep(&mut r, t[1].parse().unwrap(), t[2].parse().unwrap());
        } else if t[0] == "portseq" {
            sequences(&mut r, t[1].parse().unwrap(), t[4] == "true");
        } else if t[0] == "porteq" && t.len() >= 3 {
            let (x, y): (u16, u16) = (t[1].parse().unwrap(), t[2].parse().unwrap());
            r.ev(true);
            if (Port::<u8>::new(x) == Port::<u8>::new(y)) != (x == y) || (PortReadOnly::<u16>::new(x) == PortReadOnly::<u16>::new(y)) != (x == y) || (PortWriteOnly::<u32>::new(x) == PortWriteOnly::<u32>::new(y)) != (x == y) || (Port::<u8>::new(x) != Port::<u8>::new(y)) == (x == y) {
                r.viol("C18|PartialEq|not-equal-exactly-when-port-numbers-are-equal-(all-pairs-sweep)", &format!("porteq {} {}", x, y), "");
            }
            eq_clone(&mut r);
        } else {
            eq_clone(&mut r);
        }
        r.emit();
        return;
    }
    // fault mode: all 65536 ports
    fault_mode_on();
    for p in 0..=u16::MAX {
        if p as usize % a.nshards == a.shard {
            guarded(&mut r, "C18|Port|unexpected-panic", || format!("port {} 8 0x0 false", p), |r| port_case(r, p, false));
            if p % 16 == 0 {
                guarded(&mut r, "C18|Port|unexpected-panic", || format!("portseq {} 8 reads false", p), |r| sequences(r, p, false));
            }
        }
    }
    // step mode: 200-port alphabet (no other sensitive instruction is executed: the event list is complete)
    let mut alpha: Vec<u16> = vec![0, 1, 0x20, 0x21, 0x60, 0x64, 0x70, 0x71, 0x80, 0xa0, 0xa1, 0x3f8, 0x3fd, 0xcf8, 0xcfc, 0x7fff, 0x8000, 0xfffe, 0xffff];
    for b in 0..16 {
        alpha.push(1 << b);
        alpha.push(!(1u16 << b));
    }
    for i in 0..150u32 {
        alpha.push((i * 433 + 19) as u16);
    }
    alpha.sort_unstable();
    alpha.dedup();
    // port x value cross product: every port with all values of up to two set bits (and complements, every byte), the
    // port alphabet with up to three
    fault_mode_on();
    for p in 0..=u16::MAX {
        if p as usize % a.nshards == a.shard && (a.thorough() || p % 8 == 0 || alpha.binary_search(&p).is_ok()) {
            let k = if alpha.binary_search(&p).is_ok() { 3 } else if a.thorough() { 2 } else { 1 };
            guarded(&mut r, "C18|Port|unexpected-panic", || format!("portvals {} {}", p, k), |r| value_sweep(r, p, k));
        }
    }
    for (i, &p) in alpha.iter().enumerate() {
        if i % a.nshards == a.shard {
            guarded(&mut r, "C18|Port|unexpected-panic", || format!("port {} 8 0x0 true", p), |r| port_case(r, p, true));
            guarded(&mut r, "C18|Port|unexpected-panic", || format!("portseq {} 8 reads true", p), |r| sequences(r, p, true));
        }
    }
    guarded(&mut r, "C18|PartialEq|unexpected-panic", || "porteqall".into(), |r| eq_all_pairs(r, a));
    if a.shard == 0 {
        guarded(&mut r, "C18|PartialEq/Clone|unexpected-panic", || "porteq".into(), |r| eq_clone(r));
        guarded(&mut r, "C18|Clone|unexpected-panic", || "portcloneaccess".into(), |r| clone_access(r));
        guarded(&mut r, "C18|Port|unexpected-panic", || "portsite".into(), |r| regalloc_sites(r));
    }
    if a.shard == 1 % a.nshards {
        guarded(&mut r, "C18|Port|unexpected-panic", || "portrepeat".into(), |r| repetition(r));
        guarded(&mut r, "C18|Port|unexpected-panic", || "portflags".into(), |r| flag_sites(r));
    }
    if a.shard == 2 % a.nshards {
        guarded(&mut r, "C18|Port|unexpected-panic", || "portaudit".into(), |r| instruction_audit(r));
    }
    r.states = r.evals;
    r.exhaustive = true;
    r.sample("port 1016 16 0x80402010 false -> [In(0x3f8, 16, 0x2010)]".into());
    r.note(&format!("fault mode: all 65536 ports x 3 widths x read/write x Port/PortReadOnly/PortWriteOnly x 3-6 values; step mode ({} instructions stepped): {} ports, complete instruction stream observed", cpu().steps, alpha.len()));
    r.emit();
}
