//! C12/C14 load part: lidt / lgdt operands observed through E4.
use crate::out::Rep;
use crate::simcpu::{cpu, run_stepped, Ev};
use x86_64::structures::gdt::{Descriptor, GlobalDescriptorTable};
use x86_64::structures::idt::InterruptDescriptorTable;

pub fn run(r: &mut Rep) {
    crate::simcpu::init();
    // several tables at different addresses (stack, heap, static)
    let stack_idt = InterruptDescriptorTable::new();
    let heap_idt: Box<InterruptDescriptorTable> = Box::new(InterruptDescriptorTable::new());
    let static_idt: &'static InterruptDescriptorTable = Box::leak(Box::new(InterruptDescriptorTable::new()));
    for (n, t) in [("stack", &stack_idt), ("heap", &*heap_idt), ("static", static_idt)] {
        cpu().clear_events();
        let _ = run_stepped(|| unsafe { t.load_unsafe() });
        let ev = cpu().evs();
        r.ev(true);
        let base = t as *const _ as u64;
        if !(ev.len() == 1 && matches!(ev[0], Ev::Lidt(4095, b, _) if b == base)) {
            r.viol("C12|load_unsafe|lidt-operand-is-not-the-table-address-with-limit-4095", &format!("load {}", n), &format!("{:x?} expected Lidt(4095, {:#x})", ev, base));
        }
    }
    cpu().clear_events();
    let _ = run_stepped(|| static_idt.load());
    let ev = cpu().evs();
    r.ev(true);
    if !(ev.len() == 1 && matches!(ev[0], Ev::Lidt(4095, b, _) if b == static_idt as *const _ as u64)) {
        r.viol("C12|load|lidt-operand-is-not-the-table-address-with-limit-4095", "load static", &format!("{:x?}", ev));
    }
}

pub fn run_gdt(r: &mut Rep) {
    crate::simcpu::init();
    fn one<const M: usize>(r: &mut Rep, appends: usize) {
        let mut g: Box<GlobalDescriptorTable<M>> = Box::new(GlobalDescriptorTable::<M>::empty());
        for i in 0..appends {
            let used = g.entries().len();
            if i % 3 == 2 && used + 2 <= M {
                g.append(Descriptor::SystemSegment(0x0000_8900_0000_0067, 0));
            } else if used + 1 <= M {
                g.append(Descriptor::kernel_code_segment());
            }
        }
        let gr: &GlobalDescriptorTable<M> = &g;
        let base = gr.entries().as_ptr() as u64;
        let limit = gr.limit();
        let used = gr.entries().len();
        cpu().clear_events();
        let _ = run_stepped(|| unsafe { gr.load_unsafe() });
        let ev = cpu().evs();
        r.ev(true);
        if limit as usize != 8 * used - 1 || !(ev.len() == 1 && matches!(ev[0], Ev::Lgdt(l, b, _) if l == limit && b == base)) {
            r.viol("C14|load_unsafe|lgdt-operand-is-not-the-table-address-with-its-limit", &format!("gdtload {} {}", M, appends), &format!("{:x?} expected Lgdt({:#x}, {:#x})", ev, limit, base));
        }
    }
    for n in 0..=7 {
        one::<8>(r, n);
    }
    one::<1>(r, 0);
    one::<3>(r, 2);
    one::<9>(r, 5);
    one::<8192>(r, 100);
    let s: &'static GlobalDescriptorTable = Box::leak(Box::new({ let mut g = GlobalDescriptorTable::new(); g.append(Descriptor::kernel_data_segment()); g }));
    cpu().clear_events();
    let _ = run_stepped(|| s.load());
    let ev = cpu().evs();
    r.ev(true);
    if !(ev.len() == 1 && matches!(ev[0], Ev::Lgdt(15, b, _) if b == s.entries().as_ptr() as u64)) {
        r.viol("C14|load|lgdt-operand-is-not-the-table-address-with-its-limit", "gdtload static", &format!("{:x?}", ev));
    }
}
