//! C12/C14 load part: lidt / lgdt operands observed through E4.
use crate::out::Rep;
use crate::simcpu::{cpu, run_stepped, Ev};
use x86_64::structures::gdt::{Descriptor, GlobalDescriptorTable};
use x86_64::structures::idt::InterruptDescriptorTable;

/// addresses B that are multiples of large powers of two (2^24 inside an anonymous mapping, and 2^32 when the address space
/// below it is free), each with 64 KiB of writable memory on either side: tables placed across B cross every smaller
/// power-of-two boundary at once
pub fn boundary_addresses() -> Vec<u64> {
    use std::sync::OnceLock;
    static B: OnceLock<Vec<u64>> = OnceLock::new();
    B.get_or_init(|| {
        let mut v = vec![];
        unsafe {
            let len = 1usize << 25;
            let p = libc::mmap(core::ptr::null_mut(), len, libc::PROT_READ | libc::PROT_WRITE, libc::MAP_PRIVATE | libc::MAP_ANONYMOUS | libc::MAP_NORESERVE, -1, 0);
            if p != libc::MAP_FAILED {
                let b = ((p as u64) + (1 << 24) - 1) & !((1u64 << 24) - 1);
                if b >= p as u64 + 0x10000 && b + 0x10000 <= p as u64 + len as u64 {
                    v.push(b);
                } else {
                    v.push(b + (1 << 23)); // still a multiple of 2^23
                }
            }
            let want = 0x1_0000_0000u64 - 0x10000;
            let q = libc::mmap(want as *mut libc::c_void, 0x20000, libc::PROT_READ | libc::PROT_WRITE, libc::MAP_PRIVATE | libc::MAP_ANONYMOUS | libc::MAP_FIXED_NOREPLACE, -1, 0);
            if q != libc::MAP_FAILED && q as u64 == want {
                v.push(0x1_0000_0000);
            } else if q != libc::MAP_FAILED {
                libc::munmap(q, 0x20000);
            }
        }
        v
    })
    .clone()
}

/// tables whose bytes lie across such a boundary (and just before / just behind it): the operand of lidt / lgdt is the
/// table's own address with its own limit wherever the object lives
pub fn idt_across_boundaries(r: &mut Rep) {
    crate::simcpu::init();
    let size = core::mem::size_of::<InterruptDescriptorTable>() as i64;
    for b in boundary_addresses() {
        for off in [-size - 16, -size, -size + 16, -size + 2048, -2048, -size / 2, -16, 0, 16, -size + 4080, -0x1000 - size + 16] {
            let addr = (b as i64 + off) as u64;
            let t = addr as *mut InterruptDescriptorTable;
            unsafe { t.write(InterruptDescriptorTable::new()) };
            let t: &InterruptDescriptorTable = unsafe { &*t };
            cpu().clear_events();
            let _ = run_stepped(|| unsafe { t.load_unsafe() });
            let ev = cpu().evs();
            r.ev(true);
            if !(ev.len() == 1 && matches!(ev[0], Ev::Lidt(4095, x, _) if x == addr)) {
                r.viol("C12|load_unsafe|lidt-operand-depends-on-where-the-table-lies-relative-to-a-power-of-two-boundary", &format!("loadacross {:#x} {}", b, off), &format!("{:x?} expected Lidt(4095, {:#x})", ev, addr));
            }
        }
    }
}

pub fn gdt_across_boundaries(r: &mut Rep) {
    crate::simcpu::init();
    let size = core::mem::size_of::<GlobalDescriptorTable<8>>() as i64;
    for b in boundary_addresses() {
        for off in [-size - 8, -size, -size + 8, -size + 16, -32, -16, -8, 0, 8, -0x10000 + 8] {
            for appends in [0usize, 3, 7] {
                let addr = (b as i64 + off) as u64;
                let t = addr as *mut GlobalDescriptorTable<8>;
                let mut g = GlobalDescriptorTable::<8>::empty();
                for _ in 0..appends {
                    g.append(Descriptor::kernel_data_segment());
                }
                unsafe { t.write(g) };
                let t: &GlobalDescriptorTable<8> = unsafe { &*t };
                let (base, limit) = (t.entries().as_ptr() as u64, (8 * (appends + 1) - 1) as u16);
                cpu().clear_events();
                let _ = run_stepped(|| unsafe { t.load_unsafe() });
                let ev = cpu().evs();
                r.ev(true);
                if t.limit() != limit || !(ev.len() == 1 && matches!(ev[0], Ev::Lgdt(l, x, _) if l == limit && x == base)) {
                    r.viol("C14|load_unsafe|lgdt-operand-depends-on-where-the-table-lies-relative-to-a-power-of-two-boundary", &format!("gdtloadacross {:#x} {} {}", b, off, appends), &format!("{:x?} expected Lgdt({:#x}, {:#x})", ev, limit, base));
                }
            }
        }
    }
}

pub fn run(r: &mut Rep) {
    crate::simcpu::init();
    idt_across_boundaries(r);
    // several tables at different addresses (stack, heap, static)
    let stack_idt = InterruptDescriptorTable::new();
    let heap_idt: Box<InterruptDescriptorTable> = Box::new(InterruptDescriptorTable::new());
    let static_idt: &'static InterruptDescriptorTable = Box::leak(Box::new(InterruptDescriptorTable::new()));
    for (n, t) in [("stack", &stack_idt), ("heap", &*heap_idt), ("static", static_idt)] {
        cpu().clear_events();
        let _ = run_stepped(|| unsafe { t.load_unsafe() });
        let ev = cpu().evs();
        r.ev(true);
        let base = t as *const _ as u64;
        if !(ev.len() == 1 && matches!(ev[0], Ev::Lidt(4095, b, _) if b == base)) {
            r.viol("C12|load_unsafe|lidt-operand-is-not-the-table-address-with-limit-4095", &format!("load {}", n), &format!("{:x?} expected Lidt(4095, {:#x})", ev, base));
        }
    }
    run_cs(r);
    repeated_loads(r);
    cpu().clear_events();
    let _ = run_stepped(|| static_idt.load());
    let ev = cpu().evs();
    r.ev(true);
    if !(ev.len() == 1 && matches!(ev[0], Ev::Lidt(4095, b, _) if b == static_idt as *const _ as u64)) {
        r.viol("C12|load|lidt-operand-is-not-the-table-address-with-limit-4095", "load static", &format!("{:x?}", ev));
    }
    // histories: every sequence of up to 4 loads over two static tables x {load, load_unsafe}: each call hands the CPU
    // the table it is called on, whatever was loaded before (repeated loads, loads interleaved with the other table)
    let tabs: [&'static InterruptDescriptorTable; 2] = [static_idt, Box::leak(Box::new(InterruptDescriptorTable::new()))];
    for len in 1..=4u32 {
        for code in 0..4u32.pow(len) {
            let ops: Vec<u32> = (0..len).map(|i| (code >> (2 * i)) & 3).collect();
            r.ev(len > 1);
            for (i, &op) in ops.iter().enumerate() {
                let t = tabs[(op & 1) as usize];
                cpu().clear_events();
                let _ = run_stepped(|| if op & 2 == 0 { t.load() } else { unsafe { t.load_unsafe() } });
                let ev = cpu().evs();
                if !(ev.len() == 1 && matches!(ev[0], Ev::Lidt(4095, b, _) if b == t as *const _ as u64)) {
                    r.viol("C12|load-history|a-load-after-earlier-loads-does-not-execute-one-lidt-of-its-own-table", &format!("load history {:?} step {}", ops, i), &format!("{:x?} expected Lidt(4095, {:#x})", ev, t as *const _ as u64));
                    break;
                }
            }
        }
    }
}

/// 300 loads in a row of the same static table: load number k hands the CPU the same operand as load number 1
pub fn repeated_loads(r: &mut Rep) {
    crate::simcpu::init();
    let idt: &'static InterruptDescriptorTable = Box::leak(Box::new(InterruptDescriptorTable::new()));
    let gdt: &'static GlobalDescriptorTable = Box::leak(Box::new({ let mut g = GlobalDescriptorTable::new(); g.append(Descriptor::kernel_code_segment()); g }));
    for k in 0..300u32 {
        cpu().clear_events();
        let _ = run_stepped(|| { idt.load(); gdt.load() });
        let ev = cpu().evs();
        r.transitions += 2;
        if !(ev.len() == 2 && matches!(ev[0], Ev::Lidt(4095, b, _) if b == idt as *const _ as u64) && matches!(ev[1], Ev::Lgdt(15, b, _) if b == gdt.entries().as_ptr() as u64)) {
            r.viol("C12|load|call-number-k-differs-from-the-first-call", &format!("loadrepeat {}", k), &format!("{:x?}", ev));
            r.viol("C14|load|call-number-k-differs-from-the-first-call", &format!("gdtloadrepeat {}", k), &format!("{:x?}", ev));
            break;
        }
    }
}

/// set_handler_addr under an emulated code segment: the gate must carry the CS the CPU reports
pub fn run_cs(r: &mut Rep) {
    use x86_64::structures::idt::{Entry, HandlerFunc};
    use x86_64::VirtAddr;
    crate::simcpu::init();
    let mut sels = vec![0x08u16, 0x10, 0x33, 0x1b, 0xfff8, 0x0, 0xffff, 0x28, 0x0c, 0x27];
    for b in 0..16 {
        sels.push(1 << b);
        sels.push(!(1u16 << b));
    }
    for cs in sels {
        for addr in [0xffff_8000_0012_3000u64, 0x0000_7fff_ffff_f000, 0x1000] {
            cpu().sel[1] = cs;
            cpu().clear_events();
            let res = run_stepped(|| {
                let mut e: Entry<HandlerFunc> = Entry::missing();
                unsafe { e.set_handler_addr(VirtAddr::new(addr)) };
                crate::c12::gate_bytes(&e)
            });
            r.ev(true);
            match res {
                Ok(b) => {
                    let g = crate::c12::decode_gate(&b);
                    if g.selector != cs || g.offset != addr || !g.p || g.typ != 0xE || g.dpl != 0 || g.ist != 0 {
                        r.viol("C12|set_handler_addr|gate-does-not-carry-the-current-code-segment", &format!("gatecs {:#x} {:#x}", cs, addr), &format!("{:x?}", g));
                    }
                    if cpu().evs() != [Ev::MovFromSeg(1, cs)] {
                        r.viol("C12|set_handler_addr|does-not-read-cs-exactly-once", &format!("gatecs {:#x} {:#x}", cs, addr), &format!("{:x?}", cpu().evs()));
                    }
                }
                Err(()) => r.viol("C12|set_handler_addr|panics", &format!("gatecs {:#x} {:#x}", cs, addr), ""),
            }
        }
    }
}

pub fn run_gdt(r: &mut Rep) {
    crate::simcpu::init();
    gdt_across_boundaries(r);
    fn one<const M: usize>(r: &mut Rep, appends: usize) {
        let mut g: Box<GlobalDescriptorTable<M>> = Box::new(GlobalDescriptorTable::<M>::empty());
        for i in 0..appends {
            let used = g.entries().len();
            if appends > 1000 {
                // large fills: user segments only so that every slot count up to MAX is reachable
                if used + 1 <= M {
                    g.append(Descriptor::kernel_data_segment());
                }
                continue;
            }
            if i % 3 == 2 && used + 2 <= M {
                g.append(Descriptor::SystemSegment(0x0000_8900_0000_0067, 0));
            } else if used + 1 <= M {
                g.append(Descriptor::kernel_code_segment());
            }
        }
        // the same table at an address that is 0 and at one that is 8 modulo 16 (the type is only 8-byte aligned): the operand
        // is the table's own address wherever the object lives
        #[repr(C, align(16))]
        struct Shifted<T> {
            pad: u64,
            t: T,
        }
        let shifted: Box<Shifted<GlobalDescriptorTable<M>>> = Box::new(Shifted { pad: 0xdead_beef_dead_beef, t: (*g).clone() });
        let aligned: Box<Shifted<(u64, GlobalDescriptorTable<M>)>> = Box::new(Shifted { pad: 0, t: (0xdead_beef_dead_beef, (*g).clone()) });
        for (place, gr) in [("box", &*g), ("8-mod-16", &shifted.t), ("0-mod-16", &aligned.t.1)] {
            let base = gr.entries().as_ptr() as u64;
            let limit = gr.limit();
            let used = gr.entries().len();
            cpu().clear_events();
            let _ = run_stepped(|| unsafe { gr.load_unsafe() });
            let ev = cpu().evs();
            r.ev(true);
            if limit as usize != 8 * used - 1 || !(ev.len() == 1 && matches!(ev[0], Ev::Lgdt(l, b, _) if l == limit && b == base)) {
                r.viol("C14|load_unsafe|lgdt-operand-is-not-the-table-address-with-its-limit", &format!("gdtload {} {} at {}", M, appends, place), &format!("{:x?} expected Lgdt({:#x}, {:#x}) (address modulo 16 = {})", ev, limit, base, base % 16));
            }
        }
        let _ = shifted.pad;
    }
    for n in 0..=7 {
        one::<8>(r, n);
    }
    one::<1>(r, 0);
    one::<2>(r, 1);
    one::<3>(r, 2);
    one::<9>(r, 5);
    one::<9>(r, 8);
    one::<8192>(r, 100);
    // completely full tables, incl. the largest one (limit 0xffff)
    one::<8192>(r, 4095);
    one::<8192>(r, 8190);
    one::<8192>(r, 8191);
    one::<8192>(r, 9000);
    // histories over two static tables x {load, load_unsafe}, and append;load_unsafe interleavings on one table
    {
        // descriptors whose accessed bit is clear, and arbitrary words: loading must leave the table's contents alone
        let a: &'static GlobalDescriptorTable = Box::leak(Box::new({ let mut g = GlobalDescriptorTable::new(); g.append(Descriptor::UserSegment(0x0020_9800_0000_0000)); g.append(Descriptor::UserSegment(0x0000_9200_0000_ffff)); g.append(Descriptor::SystemSegment(0x0000_8900_0000_0067, 0x0000_9000_0000_0000)); g }));
        let b: &'static GlobalDescriptorTable = Box::leak(Box::new({ let mut g = GlobalDescriptorTable::new(); g.append(Descriptor::kernel_code_segment()); g.append(Descriptor::SystemSegment(0x0000_8900_0000_0067, 0)); g }));
        let tabs = [a, b];
        for len in 1..=4u32 {
            for code in 0..4u32.pow(len) {
                let ops: Vec<u32> = (0..len).map(|i| (code >> (2 * i)) & 3).collect();
                r.ev(len > 1);
                for (i, &op) in ops.iter().enumerate() {
                    let t = tabs[(op & 1) as usize];
                    let before: Vec<u64> = t.entries().iter().map(|e| e.raw()).collect();
                    cpu().clear_events();
                    let _ = run_stepped(|| if op & 2 == 0 { t.load() } else { unsafe { t.load_unsafe() } });
                    let ev = cpu().evs();
                    if t.entries().iter().map(|e| e.raw()).collect::<Vec<u64>>() != before {
                        r.viol("C14|load|loading-changes-the-contents-of-the-table", &format!("gdtload history {:?} step {}", ops, i), &format!("{:x?} -> {:x?}", before, t.entries().iter().map(|e| e.raw()).collect::<Vec<u64>>()));
                        break;
                    }
                    if !(ev.len() == 1 && matches!(ev[0], Ev::Lgdt(l, bb, _) if l == t.limit() && bb == t.entries().as_ptr() as u64)) {
                        r.viol("C14|load-history|a-load-after-earlier-loads-does-not-execute-one-lgdt-of-its-own-table", &format!("gdtload history {:?} step {}", ops, i), &format!("{:x?}", ev));
                        break;
                    }
                }
            }
        }
        // 0 = append user descriptor, 1 = append system descriptor, 2 = load_unsafe; all sequences of length <= 5 that fit
        for len in 1..=5u32 {
            for code in 0..3u32.pow(len) {
                let ops: Vec<u32> = (0..len).scan(code, |c, _| { let d = *c % 3; *c /= 3; Some(d) }).collect();
                let mut g: Box<GlobalDescriptorTable<8>> = Box::new(GlobalDescriptorTable::new());
                let mut used = 1usize;
                r.ev(true);
                for (i, &op) in ops.iter().enumerate() {
                    match op {
                        0 => { if used + 1 > 8 { break; } g.append(Descriptor::user_data_segment()); used += 1; }
                        1 => { if used + 2 > 8 { break; } g.append(Descriptor::SystemSegment(0x0000_8900_0000_0067, 0)); used += 2; }
                        _ => {
                            let gr: &GlobalDescriptorTable<8> = &g;
                            cpu().clear_events();
                            let _ = run_stepped(|| unsafe { gr.load_unsafe() });
                            let ev = cpu().evs();
                            if !(ev.len() == 1 && matches!(ev[0], Ev::Lgdt(l, bb, _) if l as usize == 8 * used - 1 && bb == gr.entries().as_ptr() as u64)) {
                                r.viol("C14|load-history|load-after-appends-does-not-hand-over-the-current-limit", &format!("gdtload appends {:?} step {}", ops, i), &format!("{:x?} expected limit {:#x}", ev, 8 * used - 1));
                                break;
                            }
                        }
                    }
                }
            }
        }
    }
    repeated_loads(r);
    let s: &'static GlobalDescriptorTable = Box::leak(Box::new({ let mut g = GlobalDescriptorTable::new(); g.append(Descriptor::kernel_data_segment()); g }));
    cpu().clear_events();
    let _ = run_stepped(|| s.load());
    let ev = cpu().evs();
    r.ev(true);
    if !(ev.len() == 1 && matches!(ev[0], Ev::Lgdt(15, b, _) if b == s.entries().as_ptr() as u64)) {
        r.viol("C14|load|lgdt-operand-is-not-the-table-address-with-its-limit", "gdtload static", &format!("{:x?}", ev));
    }
}
