//! C12 load part (lidt through E4) — filled in when SimCPU is available.
use crate::out::Rep;
pub fn run(_r: &mut Rep) {}
