//! C12/C14 load part: lidt / lgdt operands observed through E4.
use crate::out::Rep;
use crate::simcpu::{cpu, run_stepped, Ev};
use x86_64::structures::gdt::{Descriptor, GlobalDescriptorTable};
use x86_64::structures::idt::InterruptDescriptorTable;

pub fn run(r: &mut Rep) {
    crate::simcpu::init();
    // several tables at different addresses (stack, heap, static)
    let stack_idt = InterruptDescriptorTable::new();
    let heap_idt: Box<InterruptDescriptorTable> = Box::new(InterruptDescriptorTable::new());
    let static_idt: &'static InterruptDescriptorTable = Box::leak(Box::new(InterruptDescriptorTable::new()));
    for (n, t) in [("stack", &stack_idt), ("heap", &*heap_idt), ("static", static_idt)] {
        cpu().clear_events();
        let _ = run_stepped(|| unsafe { t.load_unsafe() });
        let ev = cpu().evs();
        r.ev(true);
        let base = t as *const _ as u64;
        if !(ev.len() == 1 && matches!(ev[0], Ev::Lidt(4095, b, _) if b == base)) {
            r.viol("C12|load_unsafe|lidt-operand-is-not-the-table-address-with-limit-4095", &format!("load {}", n), &format!("{:x?} expected Lidt(4095, {:#x})", ev, base));
        }
    }
    run_cs(r);
    cpu().clear_events();
    let _ = run_stepped(|| static_idt.load());
    let ev = cpu().evs();
    r.ev(true);
    if !(ev.len() == 1 && matches!(ev[0], Ev::Lidt(4095, b, _) if b == static_idt as *const _ as u64)) {
        r.viol("C12|load|lidt-operand-is-not-the-table-address-with-limit-4095", "load static", &format!("{:x?}", ev));
    }
}

/// set_handler_addr under an emulated code segment: the gate must carry the CS the CPU reports
pub fn run_cs(r: &mut Rep) {
    use x86_64::structures::idt::{Entry, HandlerFunc};
    use x86_64::VirtAddr;
    crate::simcpu::init();
    for cs in [0x08u16, 0x10, 0x33, 0x1b, 0xfff8, 0x0, 0xffff, 0x28] {
        for addr in [0xffff_8000_0012_3000u64, 0x0000_7fff_ffff_f000, 0x1000] {
            cpu().sel[1] = cs;
            cpu().clear_events();
            let res = run_stepped(|| {
                let mut e: Entry<HandlerFunc> = Entry::missing();
                unsafe { e.set_handler_addr(VirtAddr::new(addr)) };
                crate::c12::gate_bytes(&e)
            });
            r.ev(true);
            match res {
                Ok(b) => {
                    let g = crate::c12::decode_gate(&b);
                    if g.selector != cs || g.offset != addr || !g.p || g.typ != 0xE || g.dpl != 0 || g.ist != 0 {
                        r.viol("C12|set_handler_addr|gate-does-not-carry-the-current-code-segment", &format!("gatecs {:#x} {:#x}", cs, addr), &format!("{:x?}", g));
                    }
                    if cpu().evs() != [Ev::MovFromSeg(1, cs)] {
                        r.viol("C12|set_handler_addr|does-not-read-cs-exactly-once", &format!("gatecs {:#x} {:#x}", cs, addr), &format!("{:x?}", cpu().evs()));
                    }
                }
                Err(()) => r.viol("C12|set_handler_addr|panics", &format!("gatecs {:#x} {:#x}", cs, addr), ""),
            }
        }
    }
}

pub fn run_gdt(r: &mut Rep) {
    crate::simcpu::init();
    fn one<const M: usize>(r: &mut Rep, appends: usize) {
        let mut g: Box<GlobalDescriptorTable<M>> = Box::new(GlobalDescriptorTable::<M>::empty());
        for i in 0..appends {
            let used = g.entries().len();
            if appends > 1000 {
                // large fills: user segments only so that every slot count up to MAX is reachable
                if used + 1 <= M {
                    g.append(Descriptor::kernel_data_segment());
                }
                continue;
            }
            if i % 3 == 2 && used + 2 <= M {
                g.append(Descriptor::SystemSegment(0x0000_8900_0000_0067, 0));
            } else if used + 1 <= M {
                g.append(Descriptor::kernel_code_segment());
            }
        }
        let gr: &GlobalDescriptorTable<M> = &g;
        let base = gr.entries().as_ptr() as u64;
        let limit = gr.limit();
        let used = gr.entries().len();
        cpu().clear_events();
        let _ = run_stepped(|| unsafe { gr.load_unsafe() });
        let ev = cpu().evs();
        r.ev(true);
        if limit as usize != 8 * used - 1 || !(ev.len() == 1 && matches!(ev[0], Ev::Lgdt(l, b, _) if l == limit && b == base)) {
            r.viol("C14|load_unsafe|lgdt-operand-is-not-the-table-address-with-its-limit", &format!("gdtload {} {}", M, appends), &format!("{:x?} expected Lgdt({:#x}, {:#x})", ev, limit, base));
        }
    }
    for n in 0..=7 {
        one::<8>(r, n);
    }
    one::<1>(r, 0);
    one::<2>(r, 1);
    one::<3>(r, 2);
    one::<9>(r, 5);
    one::<9>(r, 8);
    one::<8192>(r, 100);
    // completely full tables, incl. the largest one (limit 0xffff)
    one::<8192>(r, 4095);
    one::<8192>(r, 8190);
    one::<8192>(r, 8191);
    one::<8192>(r, 9000);
    let s: &'static GlobalDescriptorTable = Box::leak(Box::new({ let mut g = GlobalDescriptorTable::new(); g.append(Descriptor::kernel_data_segment()); g }));
    cpu().clear_events();
    let _ = run_stepped(|| s.load());
    let ev = cpu().evs();
    r.ev(true);
    if !(ev.len() == 1 && matches!(ev[0], Ev::Lgdt(15, b, _) if b == s.entries().as_ptr() as u64)) {
        r.viol("C14|load|lgdt-operand-is-not-the-table-address-with-its-limit", "gdtload static", &format!("{:x?}", ev));
    }
}
