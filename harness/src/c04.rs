//! C04 — virtual address <-> page-table indices is an exact bijection.
use crate::b64::*;
use crate::out::*;
use crate::Args;
use x86_64::structures::paging::page_table::PageTableLevel;
use x86_64::structures::paging::{Page, PageOffset, PageTableIndex, Size1GiB, Size2MiB, Size4KiB};
use x86_64::VirtAddr;

const LV: [PageTableLevel; 4] = [PageTableLevel::One, PageTableLevel::Two, PageTableLevel::Three, PageTableLevel::Four];

#[inline]
fn fields(a: u64) -> [u16; 5] {
    // R5: bit fields, written independently of the crate
    [
        (a & 0xfff) as u16,
        ((a >> 12) & 0x1ff) as u16,
        ((a >> 21) & 0x1ff) as u16,
        ((a >> 30) & 0x1ff) as u16,
        ((a >> 39) & 0x1ff) as u16,
    ]
}

pub fn check_addr(r: &mut Rep, a: u64) {
    let v = VirtAddr::new(a);
    let f = fields(a);
    r.ev(f.iter().filter(|&&x| x != 0).count() >= 2);
    let got = [
        u16::from(v.page_offset()),
        u16::from(v.p1_index()),
        u16::from(v.p2_index()),
        u16::from(v.p3_index()),
        u16::from(v.p4_index()),
    ];
    if got != f {
        r.viol("C04|VirtAddr|index-or-offset-field-wrong", &format!("addr {:#x}", a), &format!("got {:?} expected {:?} (offset,p1,p2,p3,p4)", got, f));
    }
    for (i, l) in LV.iter().enumerate() {
        if u16::from(v.page_table_index(*l)) != f[i + 1] {
            r.viol("C04|VirtAddr::page_table_index|wrong", &format!("addr {:#x}", a), &format!("level {}", i + 1));
        }
    }
    // pages of each size: indices are the bit fields of the page's start address
    let p4k = Page::<Size4KiB>::containing_address(v);
    let s = fields(p4k.start_address().as_u64());
    let g = [u16::from(p4k.p1_index()), u16::from(p4k.p2_index()), u16::from(p4k.p3_index()), u16::from(p4k.p4_index())];
    if g != [f[1], f[2], f[3], f[4]] || s[0] != 0 {
        r.viol("C04|Page<4KiB>|index-wrong", &format!("addr {:#x}", a), &format!("{:?}", g));
    }
    let p2m = Page::<Size2MiB>::containing_address(v);
    let g = [u16::from(p2m.p2_index()), u16::from(p2m.p3_index()), u16::from(p2m.p4_index())];
    if g != [f[2], f[3], f[4]] {
        r.viol("C04|Page<2MiB>|index-wrong", &format!("addr {:#x}", a), &format!("{:?}", g));
    }
    let p1g = Page::<Size1GiB>::containing_address(v);
    let g = [u16::from(p1g.p3_index()), u16::from(p1g.p4_index())];
    if g != [f[3], f[4]] {
        r.viol("C04|Page<1GiB>|index-wrong", &format!("addr {:#x}", a), &format!("{:?}", g));
    }
    for (i, l) in LV.iter().enumerate() {
        let e4 = f[i + 1];
        let e2 = if i >= 1 { f[i + 1] } else { 0 };
        let e1 = if i >= 2 { f[i + 1] } else { 0 };
        if u16::from(p4k.page_table_index(*l)) != e4 || u16::from(p2m.page_table_index(*l)) != e2 || u16::from(p1g.page_table_index(*l)) != e1 {
            r.viol("C04|Page::page_table_index|wrong", &format!("addr {:#x}", a), &format!("level {}", i + 1));
        }
    }
    // inverse construction
    let ix = |x: u16| PageTableIndex::new(x);
    let q = Page::from_page_table_indices(ix(f[4]), ix(f[3]), ix(f[2]), ix(f[1]));
    let exp = sext48((f[4] as u64) << 39 | (f[3] as u64) << 30 | (f[2] as u64) << 21 | (f[1] as u64) << 12);
    if q.start_address().as_u64() != exp || exp != a & !0xfff {
        r.viol("C04|from_page_table_indices|wrong-page", &format!("addr {:#x}", a), &format!("{:#x} vs {:#x}", q.start_address().as_u64(), exp));
    }
    let q = Page::from_page_table_indices_2mib(ix(f[4]), ix(f[3]), ix(f[2]));
    let exp = sext48((f[4] as u64) << 39 | (f[3] as u64) << 30 | (f[2] as u64) << 21);
    if q.start_address().as_u64() != exp {
        r.viol("C04|from_page_table_indices_2mib|wrong-page", &format!("addr {:#x}", a), &format!("{:#x} vs {:#x}", q.start_address().as_u64(), exp));
    }
    let q = Page::from_page_table_indices_1gib(ix(f[4]), ix(f[3]));
    let exp = sext48((f[4] as u64) << 39 | (f[3] as u64) << 30);
    if q.start_address().as_u64() != exp {
        r.viol("C04|from_page_table_indices_1gib|wrong-page", &format!("addr {:#x}", a), &format!("{:#x} vs {:#x}", q.start_address().as_u64(), exp));
    }
}

fn codecs(r: &mut Rep) {
    for x in 0..=u16::MAX {
        r.ev(x >= 511);
        let case = format!("u16 {}", x);
        match catch(|| PageTableIndex::new(x)) {
            Ok(i) => {
                if x >= 512 || u16::from(i) != x || u32::from(i) != x as u32 || u64::from(i) != x as u64 || usize::from(i) != x as usize {
                    r.viol("C04|PageTableIndex::new|accepts-out-of-range-or-changes-value", &case, "");
                }
            }
            Err(()) => {
                if x < 512 {
                    r.viol("C04|PageTableIndex::new|rejects-valid", &case, "");
                }
            }
        }
        if u16::from(PageTableIndex::new_truncate(x)) != x % 512 {
            r.viol("C04|PageTableIndex::new_truncate|not-mod-512", &case, "");
        }
        match catch(|| PageOffset::new(x)) {
            Ok(i) => {
                if x >= 4096 || u16::from(i) != x || u32::from(i) != x as u32 || u64::from(i) != x as u64 || usize::from(i) != x as usize {
                    r.viol("C04|PageOffset::new|accepts-out-of-range-or-changes-value", &case, "");
                }
            }
            Err(()) => {
                if x < 4096 {
                    r.viol("C04|PageOffset::new|rejects-valid", &case, "");
                }
            }
        }
        if u16::from(PageOffset::new_truncate(x)) != x % 4096 {
            r.viol("C04|PageOffset::new_truncate|not-mod-4096", &case, "");
        }
    }
    // level helpers
    for (i, l) in LV.iter().enumerate() {
        r.ev(true);
        let lvl = i as u32 + 1;
        let lo = l.next_lower_level();
        let hi = l.next_higher_level();
        let elo = if i == 0 { None } else { Some(LV[i - 1]) };
        let ehi = if i == 3 { None } else { Some(LV[i + 1]) };
        if lo != elo || hi != ehi || *l as u8 as u32 != lvl {
            r.viol("C04|PageTableLevel|next-level-wrong", &format!("level {}", lvl), "");
        }
        if l.table_address_space_alignment() != 1u64 << (12 + 9 * lvl) || l.entry_address_space_alignment() != 1u64 << (12 + 9 * (lvl - 1)) {
            r.viol("C04|PageTableLevel|alignment-wrong", &format!("level {}", lvl), "");
        }
    }
}

pub fn run(a: &Args) {
    if let Some(c) = &a.replay {
        let mut r = Rep::new("C04", "replay");
        let t: Vec<&str> = c.split_whitespace().collect();
        if t[0] == "index" {
            crate::c05::index_provided(&mut r, "C04", t[1].parse().unwrap(), usize::from_str_radix(t[2].trim_start_matches("0x"), 16).unwrap());
        } else if t[0] == "addr" {
            check_addr(&mut r, u64::from_str_radix(t[1].trim_start_matches("0x"), 16).unwrap());
        } else {
            codecs(&mut r);
        }
        r.emit();
        return;
    }
    let mut r = Rep::new("C04", "indices");
    if a.shard == 0 {
        guarded(&mut r, "C04|index/offset codecs|unexpected-panic", || "u16 sweep".into(), |r| codecs(r));
        for x in canon() {
            guarded(&mut r, "C04|index accessors|unexpected-panic", || format!("addr {:#x}", x), |r| check_addr(r, x));
        }
        // stepping never produces an index outside 0..512
        for i in 0..512u16 {
            for n in [0usize, 1, 2, 511 - i as usize, 512 - i as usize, 513 - i as usize, 600, 1024, 65535, 65536, 65536 + 511 - i as usize, usize::MAX - 511, usize::MAX] {
                guarded(&mut r, "C04|PageTableIndex|unexpected-panic", || format!("index {} {:#x}", i, n), |r| crate::c05::index_provided(r, "C04", i, n));
            }
        }
    }
    let others: [u64; 5] = [0, 1, 255, 256, 511];
    let oth_off: [u64; 5] = [0, 1, 0x7ff, 0x800, 0xfff];
    let shifts = [0u32, 12, 21, 30, 39];
    let mut n = 0usize;
    for field in 0..5 {
        let maxv = if field == 0 { 4096 } else { 512 };
        for v in 0..maxv as u64 {
            n += 1;
            if n % a.nshards != a.shard {
                continue;
            }
            // the other four fields run through 5 values each
            for c in 0..625usize {
                let mut raw = v << shifts[field];
                let mut d = c;
                for g in 0..5 {
                    if g == field {
                        continue;
                    }
                    let pick = d % 5;
                    d /= 5;
                    let val = if g == 0 { oth_off[pick] } else { others[pick] };
                    raw |= val << shifts[g];
                }
                let x = sext48(raw);
                guarded(&mut r, "C04|index accessors|unexpected-panic", || format!("addr {:#x}", x), |r| check_addr(r, x));
            }
        }
    }
    if a.thorough() {
        // every pair of index fields through all 512 x 512 values (others in {0, 511})
        let sh = [12u32, 21, 30, 39];
        let mut n = 0usize;
        for f1 in 0..4 {
            for f2 in (f1 + 1)..4 {
                for v1 in 0..512u64 {
                    n += 1;
                    if n % a.nshards != a.shard {
                        continue;
                    }
                    for v2 in 0..512u64 {
                        for rest in 0..4u64 {
                            let mut raw = (v1 << sh[f1]) | (v2 << sh[f2]);
                            let mut k = 0;
                            for g in 0..4 {
                                if g != f1 && g != f2 {
                                    if rest >> k & 1 == 1 {
                                        raw |= 511 << sh[g];
                                    }
                                    k += 1;
                                }
                            }
                            let x = sext48(raw | 0xabc);
                            guarded(&mut r, "C04|index accessors|unexpected-panic", || format!("addr {:#x}", x), |r| check_addr(r, x));
                        }
                    }
                }
            }
        }
        r.note("thorough: every pair of index fields through all 512x512 values, the remaining two in {0,511}");
    }
    if a.shard == 0 {
        guarded(&mut r, "C04|const-context|unexpected-panic", || "constctx".into(), |r| crate::constctx::addrs(r, "C04"));
    }
    r.sample("addr 0xffff800000000000".into());
    r.sample("addr 0x181c0e09abc (indices 3,7,7,9)".into());
    r.note("exhaustive: all 65536 u16 for index/offset constructors; each of the 5 fields through all its values with the other four in {0,1,255,256,511}^4; full 512^4 product not enumerated");
    r.emit();
}
