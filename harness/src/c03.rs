//! C03 — address values are always valid: canonical virtual, 52-bit physical.
use crate::b64::*;
use crate::out::*;
use crate::Args;
use std::collections::BTreeSet;
use std::iter::Step;
use x86_64::structures::idt::{Entry, HandlerFunc};
use x86_64::structures::paging::page_table::PageTableEntry;
use x86_64::structures::paging::{Page, PageSize, PhysFrame, Size1GiB, Size2MiB, Size4KiB};
use x86_64::{PhysAddr, VirtAddr};

fn ctor_virt(r: &mut Rep, x: u64) {
    let c = is_canon(x);
    r.ev(!c || x >> 47 != 0);
    let case = format!("ctor V {:#x}", x);
    match VirtAddr::try_new(x) {
        Ok(v) => {
            if !c || v.as_u64() != x {
                r.viol("C03|VirtAddr::try_new|accepts-invalid-or-changes-value", &case, &format!("Ok({:#x})", v.as_u64()));
            }
        }
        Err(e) => {
            if c || e.0 != x {
                r.viol("C03|VirtAddr::try_new|rejects-valid", &case, "Err");
            }
        }
    }
    match catch(|| VirtAddr::new(x).as_u64()) {
        Ok(v) => {
            if !c || v != x {
                r.viol("C03|VirtAddr::new|accepts-invalid-or-changes-value", &case, &format!("{:#x}", v));
            }
        }
        Err(()) => {
            if c {
                r.viol("C03|VirtAddr::new|rejects-valid", &case, "panic");
            }
        }
    }
    // in-contract use of the unchecked constructor, zero(), is_null(), pointer round trip
    if c {
        let u = unsafe { VirtAddr::new_unsafe(x) };
        if u.as_u64() != x || u != VirtAddr::new_truncate(x) || u.is_null() != (x == 0) || u.as_ptr::<u8>() as u64 != x || u.as_mut_ptr::<u64>() as u64 != x || VirtAddr::from_ptr(x as *const u8).as_u64() != x {
            r.viol("C03|VirtAddr::new_unsafe/is_null/as_ptr/from_ptr|changes-a-valid-value", &case, "");
        }
    }
    if VirtAddr::zero().as_u64() != 0 {
        r.viol("C03|VirtAddr::zero|not-zero", &case, "");
    }
    let t = VirtAddr::new_truncate(x).as_u64();
    if t != sext48(x) {
        r.viol("C03|VirtAddr::new_truncate|not-sign-extension-of-low-48", &case, &format!("{:#x}", t));
    }
    if VirtAddr::new_truncate(t).as_u64() != t {
        r.viol("C03|VirtAddr::new_truncate|not-idempotent", &case, "");
    }
    for b in 48..64 {
        if VirtAddr::new_truncate(x ^ (1u64 << b)).as_u64() != t {
            r.viol("C03|VirtAddr::new_truncate|depends-on-high-bits", &case, &format!("bit {}", b));
        }
    }
    // pointer conversion
    match catch(|| VirtAddr::from_ptr(x as *const u8).as_u64()) {
        Ok(v) => {
            if !c || v != x {
                r.viol("C03|VirtAddr::from_ptr|invalid-value", &case, &format!("{:#x}", v));
            }
        }
        Err(()) => {
            if c {
                r.viol("C03|VirtAddr::from_ptr|rejects-valid", &case, "panic");
            }
        }
    }
    if c {
        let v = VirtAddr::new(x);
        if v.as_ptr::<u8>() as u64 != x || v.as_mut_ptr::<u8>() as u64 != x || v.is_null() != (x == 0) {
            r.viol("C03|VirtAddr::as_ptr|wrong", &case, "");
        }
    }
}

fn ctor_phys(r: &mut Rep, x: u64) {
    let c = is_phys(x);
    r.ev(!c || x >> 51 != 0);
    let case = format!("ctor P {:#x}", x);
    match PhysAddr::try_new(x) {
        Ok(v) => {
            if !c || v.as_u64() != x {
                r.viol("C03|PhysAddr::try_new|accepts-invalid-or-changes-value", &case, &format!("Ok({:#x})", v.as_u64()));
            }
        }
        Err(e) => {
            if c || e.0 != x {
                r.viol("C03|PhysAddr::try_new|rejects-valid", &case, "Err");
            }
        }
    }
    match catch(|| PhysAddr::new(x).as_u64()) {
        Ok(v) => {
            if !c || v != x {
                r.viol("C03|PhysAddr::new|accepts-invalid-or-changes-value", &case, &format!("{:#x}", v));
            }
        }
        Err(()) => {
            if c {
                r.viol("C03|PhysAddr::new|rejects-valid", &case, "panic");
            }
        }
    }
    if c {
        let u = unsafe { PhysAddr::new_unsafe(x) };
        if u.as_u64() != x || u != PhysAddr::new_truncate(x) || u.is_null() != (x == 0) {
            r.viol("C03|PhysAddr::new_unsafe/is_null|changes-a-valid-value", &case, "");
        }
    }
    if PhysAddr::zero().as_u64() != 0 {
        r.viol("C03|PhysAddr::zero|not-zero", &case, "");
    }
    let t = PhysAddr::new_truncate(x).as_u64();
    if t != x & ((1u64 << 52) - 1) {
        r.viol("C03|PhysAddr::new_truncate|not-low-52-bits", &case, &format!("{:#x}", t));
    }
    if PhysAddr::new_truncate(t).as_u64() != t {
        r.viol("C03|PhysAddr::new_truncate|not-idempotent", &case, "");
    }
    for b in 52..64 {
        if PhysAddr::new_truncate(x ^ (1u64 << b)).as_u64() != t {
            r.viol("C03|PhysAddr::new_truncate|depends-on-high-bits", &case, &format!("bit {}", b));
        }
    }
}

fn raw_structs(r: &mut Rep, x: u64, y: u64) {
    // PageTableEntry::addr() for an arbitrary raw entry
    let e: PageTableEntry = unsafe { core::mem::transmute::<u64, PageTableEntry>(x) };
    r.ev(true);
    match catch(|| e.addr().as_u64()) {
        Ok(a) => {
            if !is_phys(a) {
                r.viol("C03|PageTableEntry::addr|invalid-phys", &format!("pte {:#x}", x), &format!("{:#x}", a));
            }
        }
        Err(()) => {} // a panic is not a value
    }
    // idt::Entry::handler_addr() for an arbitrary raw gate
    let raw: [u64; 2] = [x, y];
    let g: Entry<HandlerFunc> = unsafe { core::mem::transmute::<[u64; 2], Entry<HandlerFunc>>(raw) };
    match catch(|| g.handler_addr().as_u64()) {
        Ok(a) => {
            if !is_canon(a) {
                r.viol("C03|idt::Entry::handler_addr|non-canonical", &format!("gate {:#x} {:#x}", x, y), &format!("{:#x}", a));
            }
        }
        Err(()) => {}
    }
}

// ------------------------------------------------------------------ closure search

#[derive(Clone, Copy, Debug, PartialEq, Eq)]
pub struct Act(pub u8, pub u64);

const SZ: [u64; 3] = [0x1000, 0x20_0000, 0x4000_0000];

fn page_start<S: PageSize>(v: u64) -> Page<S> {
    Page::<S>::containing_address(VirtAddr::new(v))
}
fn frame_start<S: PageSize>(v: u64) -> PhysFrame<S> {
    PhysFrame::<S>::containing_address(PhysAddr::new(v))
}
/// `op=` on a variable that stays observable after a caught panic (catch_unwind is safe code): whatever the
/// variable holds afterwards is a value "obtainable through the safe API" and must be valid too.
fn assign<T: Copy>(x: T, f: impl FnOnce(&mut T)) -> T {
    let mut y = x;
    let _ = catch(|| f(&mut y));
    y
}
fn pg<S: PageSize>(code: u8, v: u64, n: u64) -> Option<u64> {
    let p = page_start::<S>(v);
    let q = match code {
        0 => p,
        1 => p + n,
        2 => p - n,
        3 => Step::forward_checked(p, n as usize)?,
        4 => Step::backward_checked(p, n as usize)?,
        5 => Step::forward(p, n as usize),
        6 => Step::backward(p, n as usize),
        7 => assign(p, |y| *y += n),
        8 => assign(p, |y| *y -= n),
        _ => unreachable!(),
    };
    Some(q.start_address().as_u64())
}
fn fr<S: PageSize>(code: u8, v: u64, n: u64) -> Option<u64> {
    let p = frame_start::<S>(v);
    let q = match code {
        0 => p,
        1 => p + n,
        2 => p - n,
        3 => assign(p, |y| *y += n),
        4 => assign(p, |y| *y -= n),
        _ => unreachable!(),
    };
    Some(q.start_address().as_u64())
}

/// ranges are values too: drain a range in place with next() (k = all items + 1) and read its public fields back
/// code: 0/1 inclusive start/end field, 2/3 exclusive start/end field; the range spans n pages from the page containing v
fn pg_range<S: PageSize>(code: u8, v: u64, n: u64) -> Option<u64> {
    let p = page_start::<S>(v);
    let e = Step::forward_checked(p, n as usize)?;
    Some(if code < 2 {
        let mut rg = Page::<S>::range_inclusive(p, e);
        for _ in 0..=n + 1 {
            let _ = rg.next();
        }
        if code == 0 { rg.start } else { rg.end }.start_address().as_u64()
    } else {
        let mut rg = Page::<S>::range(p, e);
        for _ in 0..=n + 1 {
            let _ = rg.next();
        }
        if code == 2 { rg.start } else { rg.end }.start_address().as_u64()
    })
}
fn fr_range<S: PageSize>(code: u8, v: u64, n: u64) -> Option<u64> {
    let p = frame_start::<S>(v);
    let e = PhysFrame::<S>::from_start_address(PhysAddr::try_new(p.start_address().as_u64().checked_add(n.checked_mul(S::SIZE)?)?).ok()?).ok()?;
    Some(if code < 2 {
        let mut rg = PhysFrame::<S>::range_inclusive(p, e);
        for _ in 0..=n + 1 {
            let _ = rg.next();
        }
        if code == 0 { rg.start } else { rg.end }.start_address().as_u64()
    } else {
        let mut rg = PhysFrame::<S>::range(p, e);
        for _ in 0..=n + 1 {
            let _ = rg.next();
        }
        if code == 2 { rg.start } else { rg.end }.start_address().as_u64()
    })
}

/// Apply one safe address-returning operation. None = panicked / produced no value.
pub fn apply(virt: bool, v: u64, a: Act) -> Option<u64> {
    catch(move || -> Option<u64> {
        if virt {
            let x = VirtAddr::new(v);
            Some(match a.0 {
                // the alignment argument is generic (`impl Into<u64>`): use the narrowest integer type that holds it, so that
                // the u8 / u16 / u32 / u64 instantiations are all exercised
                0 if a.1 < 8 => x.align_up(1u8 << a.1).as_u64(),
                0 if a.1 < 16 => x.align_up(1u16 << a.1).as_u64(),
                0 if a.1 < 32 => x.align_up(1u32 << a.1).as_u64(),
                0 => x.align_up(1u64 << a.1).as_u64(),
                1 if a.1 < 8 => x.align_down(1u8 << a.1).as_u64(),
                1 if a.1 < 16 => x.align_down(1u16 << a.1).as_u64(),
                1 if a.1 < 32 => x.align_down(1u32 << a.1).as_u64(),
                1 => x.align_down(1u64 << a.1).as_u64(),
                2 => (x + a.1).as_u64(),
                3 => (x - a.1).as_u64(),
                4 => assign(x, |y| *y += a.1).as_u64(),
                5 => assign(x, |y| *y -= a.1).as_u64(),
                6 => Step::forward_checked(x, a.1 as usize)?.as_u64(),
                7 => Step::backward_checked(x, a.1 as usize)?.as_u64(),
                8 => Step::forward(x, a.1 as usize).as_u64(),
                9 => Step::backward(x, a.1 as usize).as_u64(),
                10..=18 => pg::<Size4KiB>(a.0 - 10, v, a.1)?,
                20..=28 => pg::<Size2MiB>(a.0 - 20, v, a.1)?,
                30..=38 => pg::<Size1GiB>(a.0 - 30, v, a.1)?,
                50..=53 => pg_range::<Size4KiB>(a.0 - 50, v, a.1)?,
                60..=63 => pg_range::<Size2MiB>(a.0 - 60, v, a.1)?,
                70..=73 => pg_range::<Size1GiB>(a.0 - 70, v, a.1)?,
                40 => VirtAddr::from_ptr(x.as_ptr::<u8>()).as_u64(),
                41 => {
                    // a page built from this address' own indices
                    Page::from_page_table_indices(x.p4_index(), x.p3_index(), x.p2_index(), x.p1_index()).start_address().as_u64()
                }
                42 => Page::from_page_table_indices_2mib(x.p4_index(), x.p3_index(), x.p2_index()).start_address().as_u64(),
                43 => Page::from_page_table_indices_1gib(x.p4_index(), x.p3_index()).start_address().as_u64(),
                _ => unreachable!(),
            })
        } else {
            let x = PhysAddr::new(v);
            Some(match a.0 {
                0 if a.1 < 8 => x.align_up(1u8 << a.1).as_u64(),
                0 if a.1 < 16 => x.align_up(1u16 << a.1).as_u64(),
                0 if a.1 < 32 => x.align_up(1u32 << a.1).as_u64(),
                0 => x.align_up(1u64 << a.1).as_u64(),
                1 if a.1 < 8 => x.align_down(1u8 << a.1).as_u64(),
                1 if a.1 < 16 => x.align_down(1u16 << a.1).as_u64(),
                1 if a.1 < 32 => x.align_down(1u32 << a.1).as_u64(),
                1 => x.align_down(1u64 << a.1).as_u64(),
                2 => (x + a.1).as_u64(),
                3 => (x - a.1).as_u64(),
                4 => assign(x, |y| *y += a.1).as_u64(),
                5 => assign(x, |y| *y -= a.1).as_u64(),
                50..=53 => fr_range::<Size4KiB>(a.0 - 50, v, a.1)?,
                60..=63 => fr_range::<Size2MiB>(a.0 - 60, v, a.1)?,
                70..=73 => fr_range::<Size1GiB>(a.0 - 70, v, a.1)?,
                10..=14 => fr::<Size4KiB>(a.0 - 10, v, a.1)?,
                20..=24 => fr::<Size2MiB>(a.0 - 20, v, a.1)?,
                30..=34 => fr::<Size1GiB>(a.0 - 30, v, a.1)?,
                _ => unreachable!(),
            })
        }
    })
    .ok()
    .flatten()
}

fn actions(virt: bool, small: bool) -> Vec<Act> {
    let mut v = Vec::new();
    let ks: Vec<u64> = if small { vec![0, 1, 12, 21, 30, 39, 47, 48, 63] } else { (0..64).collect() };
    for &k in &ks {
        v.push(Act(0, k));
        v.push(Act(1, k));
    }
    let offs: Vec<u64> = if small {
        vec![0, 1, 0xfff, 0x1000, 0x20_0000, 0x4000_0000, 1 << 47, (1 << 47) - 1, 1 << 48, 1 << 52, u64::MAX, u64::MAX - 0xfff, 0xffff_8000_0000_0000, 0x7fff_ffff_f000]
    } else {
        b64_small()
    };
    for &o in &offs {
        for c in 2..=5 {
            v.push(Act(c, o));
        }
        if virt {
            for c in 6..=9 {
                v.push(Act(c, o));
            }
        }
    }
    let counts: Vec<u64> = if small { vec![0, 1, 2, 511, 512, 1 << 35, 1 << 36, 1 << 52, u64::MAX] } else {
        let mut c = vec![0u64, 1, 2, 3, 511, 512, 513, u64::MAX, u64::MAX - 1];
        for k in [17u32, 18, 26, 27, 35, 36, 43, 44, 51, 52, 63] { c.push(1 << k); c.push((1 << k) - 1); c.push((1 << k) + 1); }
        c
    };
    for base in [10u8, 20, 30] {
        v.push(Act(base, 0));
        let top = if virt { 8 } else { 4 };
        for c in 1..=top {
            for &n in &counts {
                v.push(Act(base + c, n));
            }
        }
    }
    if virt {
        for c in 40..=43 {
            v.push(Act(c, 0));
        }
    }
    // drained ranges of 0..3 pages starting at the page containing the value: fields left behind
    for base in [50u8, 60, 70] {
        for c in 0..4 {
            for n in 0..=3u64 {
                v.push(Act(base + c, n));
            }
        }
    }
    v
}

fn valid(virt: bool, x: u64) -> bool {
    if virt { is_canon(x) } else { is_phys(x) }
}

fn closure(r: &mut Rep, a: &Args, virt: bool) {
    let kind = if virt { "V" } else { "P" };
    let init: Vec<u64> = if virt { canon() } else { phys() };
    let full = actions(virt, false);
    let small = actions(virt, true);
    let mut seen: BTreeSet<u64> = init.iter().copied().collect();
    let mut level1: BTreeSet<u64> = BTreeSet::new();
    // depth 1: every initial state x full alphabet (computed identically in every shard: cheap)
    for &s in &init {
        for &act in &full {
            let count = a.shard == 0; // depth 1 is recomputed identically by every shard; count it once
            if count {
                r.transitions += 1;
            }
            match apply(virt, s, act) {
                None => {
                    if count {
                        r.bucket("no-value(panic/None)")
                    }
                }
                Some(y) => {
                    if count {
                        r.bucket("value");
                    }
                    if !valid(virt, y) {
                        r.viol(
                            &format!("C03|closure|{}|op{}|invalid-address-value", kind, act.0),
                            &format!("prog {} {:#x} {}:{:#x}", kind, s, act.0, act.1),
                            &format!("produced {:#x}", y),
                        );
                    } else if seen.insert(y) {
                        level1.insert(y);
                    }
                }
            }
        }
    }
    if a.shard == 0 {
        r.states += (init.len() + level1.len()) as u64;
    }
    r.max_depth = 1;
    // depth 2: from every new depth-1 state; quick = small alphabet, thorough = full alphabet (sharded)
    let acts2 = if a.thorough() { &full } else { &small };
    let mut new2 = 0u64;
    for (i, &s) in level1.iter().enumerate() {
        if i % a.nshards != a.shard {
            continue;
        }
        for &act in acts2.iter() {
            r.transitions += 1;
            if let Some(y) = apply(virt, s, act) {
                if !valid(virt, y) {
                    r.viol(
                        &format!("C03|closure|{}|op{}|invalid-address-value", kind, act.0),
                        &format!("prog {} {:#x} {}:{:#x}", kind, s, act.0, act.1),
                        &format!("produced {:#x} (depth 2)", y),
                    );
                } else if !seen.contains(&y) {
                    new2 += 1;
                }
            }
        }
    }
    r.max_depth = 2;
    r.bucket_n("depth2-new-values", new2);
    r.evals = 0;
    r.nontrivial = r.hist.get("no-value(panic/None)").copied().unwrap_or(0).min(r.evals) + level1.len() as u64;
}

pub fn replay(case: &str) -> Rep {
    let mut r = Rep::new("C03", "replay");
    let t: Vec<&str> = case.split_whitespace().collect();
    let h = |s: &str| u64::from_str_radix(s.trim_start_matches("0x"), 16).unwrap();
    match t[0] {
        "ctor" => {
            if t[1] == "V" { ctor_virt(&mut r, h(t[2])) } else { ctor_phys(&mut r, h(t[2])) }
        }
        "pte" => raw_structs(&mut r, h(t[1]), 0),
        "gate" => raw_structs(&mut r, h(t[1]), h(t[2])),
        "prog" => {
            let virt = t[1] == "V";
            let s = h(t[2]);
            let (c, v) = t[3].split_once(':').unwrap();
            let act = Act(c.parse().unwrap(), h(v));
            if let Some(y) = apply(virt, s, act) {
                if !valid(virt, y) {
                    r.viol(&format!("C03|closure|{}|op{}|invalid-address-value", t[1], act.0), case, &format!("produced {:#x}", y));
                }
            }
        }
        _ => panic!("bad case"),
    }
    r
}

pub fn run(a: &Args) {
    if let Some(c) = &a.replay {
        replay(c).emit();
        return;
    }
    if a.shard == 0 {
        let mut r = Rep::new("C03", &format!("constructors-{}", profile()));
        let all = b64();
        for &x in &all {
            guarded(&mut r, "C03|VirtAddr constructors|unexpected-panic", || format!("ctor V {:#x}", x), |r| ctor_virt(r, x));
            guarded(&mut r, "C03|PhysAddr constructors|unexpected-panic", || format!("ctor P {:#x}", x), |r| ctor_phys(r, x));
        }
        for &x in &all {
            for &y in &[0u64, u64::MAX, 0x0000_8000_0000_0000, 0xffff_7fff_0000_0000, 0x1234_5678_9abc_def0] {
                raw_structs(&mut r, x, y);
                raw_structs(&mut r, y, x);
            }
        }
        if VirtAddr::zero().as_u64() != 0 || PhysAddr::zero().as_u64() != 0 {
            r.viol("C03|zero|nonzero", "zero", "");
        }
        guarded(&mut r, "C03|const-context|unexpected-panic", || "constctx".into(), |r| crate::constctx::addrs(r, "C03"));
        r.sample("ctor V 0x800000000000".into());
        r.sample("gate 0xffff7fff00000000 0x8000".into());
        r.emit();
    }
    let mut r = Rep::new("C03", &format!("closure-virt-{}", profile()));
    closure(&mut r, a, true);
    r.sample("prog V 0x7ffffffff000 8:0x1000  (Step::forward over the gap)".into());
    r.emit();
    let mut r = Rep::new("C03", &format!("closure-phys-{}", profile()));
    closure(&mut r, a, false);
    r.sample("prog P 0xffffffffff000 0:0x15  (align_up to 2^21 at the top of physical memory)".into());
    r.emit();
}
