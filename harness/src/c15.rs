//! C15 — segment/TSS descriptors and the TSS have the architectural encoding.
use crate::b64::*;
use crate::out::*;
use crate::Args;
use x86_64::structures::gdt::{Descriptor, DescriptorFlags};
use x86_64::structures::tss::TaskStateSegment;
use x86_64::structures::DescriptorTablePointer;
use x86_64::{PrivilegeLevel, VirtAddr};

/// R4: decode a 16-byte 64-bit system descriptor (SDM vol.3 fig. 8-4 / APM vol.2 fig. 4-22).
pub struct SysDesc {
    pub base: u64,
    pub limit: u32,
    pub typ: u8,
    pub s: bool,
    pub dpl: u8,
    pub p: bool,
    pub avl: bool,
    pub l: bool,
    pub db: bool,
    pub g: bool,
    pub upper_reserved: u32,
}
pub fn decode_sys(low: u64, high: u64) -> SysDesc {
    SysDesc {
        limit: ((low & 0xffff) | ((low >> 48) & 0xf) << 16) as u32,
        base: ((low >> 16) & 0xff_ffff) | (((low >> 56) & 0xff) << 24) | ((high & 0xffff_ffff) << 32),
        typ: ((low >> 40) & 0xf) as u8,
        s: low >> 44 & 1 == 1,
        dpl: ((low >> 45) & 3) as u8,
        p: low >> 47 & 1 == 1,
        avl: low >> 52 & 1 == 1,
        l: low >> 53 & 1 == 1,
        db: low >> 54 & 1 == 1,
        g: low >> 55 & 1 == 1,
        upper_reserved: (high >> 32) as u32,
    }
}

/// the 16 bytes the CPU reads at the selector once the descriptor sits in a descriptor table - appended, or handed over as
/// the last raw entries - and after a further append behind it: the same two words
/// the same in tables of other capacities, the descriptor filling the table exactly (capacities that are not powers of two,
/// the smallest table that can hold a TSS descriptor)
fn tss_in_sized_tables(r: &mut Rep, case: &str, lo: u64, hi: u64) {
    use x86_64::structures::gdt::GlobalDescriptorTable;
    macro_rules! sized {
        ($M:literal, $pre:expr) => {{
            let got = catch(|| {
                let mut g = GlobalDescriptorTable::<$M>::empty();
                for _ in 0..$pre {
                    g.append(Descriptor::kernel_data_segment());
                }
                let sel = g.append(Descriptor::SystemSegment(lo, hi));
                (sel.index() as usize, g.entries().iter().map(|e| e.raw()).collect::<Vec<u64>>(), g.limit())
            });
            let want_idx = 1 + $pre;
            match got {
                Ok((idx, words, limit)) => {
                    if idx != want_idx || words.len() != want_idx + 2 || words[0] != 0 || words[want_idx] != lo || words[want_idx + 1] != hi || limit as usize != 8 * (want_idx + 2) - 1 || words[1..want_idx].iter().any(|&w| w != DescriptorFlags::KERNEL_DATA.bits()) {
                        r.viol("C15|tss_segment|descriptor-in-a-descriptor-table-is-not-the-16-bytes-produced", case, &format!("capacity {} after {} code/data descriptors: index {} words {:x?} limit {}", $M, $pre, idx, words, limit));
                    }
                }
                Err(()) => r.viol("C15|tss_segment|descriptor-cannot-be-placed-in-a-table", case, &format!("capacity {}", $M)),
            }
        }};
    }
    sized!(3, 0);
    sized!(5, 2);
    sized!(6, 3);
    sized!(7, 4);
    sized!(7, 0);
    sized!(9, 6);
    sized!(13, 1);
    sized!(16, 13);
}

fn tss_in_table(r: &mut Rep, case: &str, lo: u64, hi: u64) {
    use x86_64::structures::gdt::GlobalDescriptorTable;
    let follow = Descriptor::UserSegment(DescriptorFlags::USER_DATA.bits());
    let built = catch(|| {
        let mut a = GlobalDescriptorTable::<8>::empty();
        a.append(Descriptor::kernel_code_segment());
        let sel = a.append(Descriptor::SystemSegment(lo, hi));
        let mut b = GlobalDescriptorTable::<8>::from_raw_entries(&[0, DescriptorFlags::KERNEL_CODE64.bits(), lo, hi]);
        let mut out = vec![(sel.index() as usize, a.entries().iter().map(|e| e.raw()).collect::<Vec<u64>>(), a.limit())];
        out.push((2, b.entries().iter().map(|e| e.raw()).collect(), b.limit()));
        // copies of the table (clone, clone_from over a dirty table, a copied Entry) hold the same 16 bytes
        let c = a.clone();
        out.push((2, c.entries().iter().map(|e| e.raw()).collect(), c.limit()));
        let mut d = GlobalDescriptorTable::<8>::empty();
        for _ in 0..6 {
            d.append(Descriptor::UserSegment(u64::MAX));
        }
        d.clone_from(&b);
        out.push((2, d.entries().iter().map(|e| e.raw()).collect(), d.limit()));
        let e: Vec<u64> = a.entries().iter().map(|e| e.clone().raw()).collect();
        out.push((2, e, a.limit()));
        a.append(follow);
        b.append(follow);
        out.push((sel.index() as usize, a.entries().iter().map(|e| e.raw()).collect(), a.limit()));
        out.push((2, b.entries().iter().map(|e| e.raw()).collect(), b.limit()));
        out
    });
    match built {
        Ok(v) => {
            for (k, (idx, words, limit)) in v.into_iter().enumerate() {
                let want_len = if k < 5 { 4 } else { 5 };
                if idx != 2 || words.len() != want_len || words[2] != lo || words[3] != hi || limit as usize != 8 * want_len - 1 || (k >= 5 && words[4] != DescriptorFlags::USER_DATA.bits()) {
                    r.viol("C15|tss_segment|descriptor-in-a-descriptor-table-is-not-the-16-bytes-produced", case, &format!("{} table: index {} words {:x?} limit {}", ["appended", "from-raw-entries", "clone", "clone_from", "entry-wise clone", "appended+1", "from-raw-entries+1"][k], idx, words, limit));
                    break;
                }
            }
        }
        Err(()) => r.viol("C15|tss_segment|descriptor-cannot-be-placed-in-a-table", case, ""),
    }
}

pub fn tss_desc_case(r: &mut Rep, p: u64) {
    r.ev(p >> 24 != 0);
    let d = unsafe { Descriptor::tss_segment_unchecked(p as *const TaskStateSegment) };
    let case = format!("tssdesc {:#x}", p);
    match d {
        Descriptor::SystemSegment(lo, hi) => {
            if p.count_ones() <= 2 || p.count_zeros() <= 2 {
                tss_in_table(r, &case, lo, hi);
                if p.count_ones() <= 1 || p.count_zeros() <= 1 {
                    tss_in_sized_tables(r, &case, lo, hi);
                }
            }
            let x = decode_sys(lo, hi);
            if x.base != p {
                r.viol("C15|tss_segment|base-wrong", &case, &format!("base {:#x}", x.base));
            }
            if x.limit != 0x67 || x.typ != 0b1001 || x.s || x.dpl != 0 || !x.p || x.avl || x.l || x.db || x.g || x.upper_reserved != 0 {
                r.viol("C15|tss_segment|attribute-or-reserved-bits-wrong", &case, &format!("lo {:#x} hi {:#x}", lo, hi));
            }
            if d.dpl() != PrivilegeLevel::Ring0 {
                r.viol("C15|tss_segment|dpl()-wrong", &case, "");
            }
        }
        _ => r.viol("C15|tss_segment|not-a-system-descriptor", &case, ""),
    }
}

fn presets(r: &mut Rep) {
    // (name, bits, is_code, long, default_size, dpl)
    let ps: [(&str, u64, bool, bool, bool, u8); 6] = [
        ("KERNEL_DATA", DescriptorFlags::KERNEL_DATA.bits(), false, false, true, 0),
        ("KERNEL_CODE32", DescriptorFlags::KERNEL_CODE32.bits(), true, false, true, 0),
        ("KERNEL_CODE64", DescriptorFlags::KERNEL_CODE64.bits(), true, true, false, 0),
        ("USER_DATA", DescriptorFlags::USER_DATA.bits(), false, false, true, 3),
        ("USER_CODE32", DescriptorFlags::USER_CODE32.bits(), true, false, true, 3),
        ("USER_CODE64", DescriptorFlags::USER_CODE64.bits(), true, true, false, 3),
    ];
    for (n, b, code, long, db, dpl) in ps {
        r.ev(true);
        let s = b >> 44 & 1 == 1;
        let exec = b >> 43 & 1 == 1;
        let p = b >> 47 & 1 == 1;
        let l = b >> 53 & 1 == 1;
        let d = b >> 54 & 1 == 1;
        let dp = ((b >> 45) & 3) as u8;
        // data segments: D/B is ignored in 64-bit mode but the name says "64-bit or flat 32-bit" => B=1 expected for flat 32-bit; L must be 0
        let ok = s && p && exec == code && dp == dpl && l == long && (if code { d == db } else { !l });
        if !ok {
            r.viol(&format!("C15|DescriptorFlags::{}|does-not-decode-to-its-name", n), &format!("preset {}", n), &format!("{:#x}", b));
        }
        if Descriptor::UserSegment(b).dpl() as u8 != dpl {
            r.viol(&format!("C15|DescriptorFlags::{}|dpl()-wrong", n), &format!("preset {}", n), "");
        }
    }
    let cs: [(&str, Descriptor, u64); 4] = [
        ("kernel_code_segment", Descriptor::kernel_code_segment(), DescriptorFlags::KERNEL_CODE64.bits()),
        ("kernel_data_segment", Descriptor::kernel_data_segment(), DescriptorFlags::KERNEL_DATA.bits()),
        ("user_data_segment", Descriptor::user_data_segment(), DescriptorFlags::USER_DATA.bits()),
        ("user_code_segment", Descriptor::user_code_segment(), DescriptorFlags::USER_CODE64.bits()),
    ];
    for (n, d, e) in cs {
        r.ev(true);
        match d {
            Descriptor::UserSegment(v) if v == e => {}
            _ => r.viol(&format!("C15|Descriptor::{}|wrong-preset", n), &format!("ctor {}", n), ""),
        }
    }
}

pub fn dpl_case(r: &mut Rep, base: u64, dpl: u8, system: bool) {
    dpl_case_tag(r, "C15", base, dpl, system)
}
pub fn dpl_case_tag(r: &mut Rep, tag: &str, base: u64, dpl: u8, system: bool) {
    r.ev(true);
    let low = (base & !(3u64 << 45)) | ((dpl as u64) << 45);
    // the second word of a system descriptor carries no DPL: try it with the complement and with every other level there
    let highs: Vec<u64> = if system { vec![!base, 0, 1u64 << 45, 2u64 << 45, 3u64 << 45, low] } else { vec![0] };
    for hi in highs {
        let d = if system { Descriptor::SystemSegment(low, hi) } else { Descriptor::UserSegment(low) };
        if d.dpl() as u8 != dpl {
            r.viol(&format!("{}|Descriptor::dpl|wrong", tag), &format!("dpl {:#x} {} {}", base, dpl, system), &format!("{:?} (second word {:#x})", d.dpl(), hi));
            break;
        }
    }
}

fn layouts(r: &mut Rep) {
    r.ev(true);
    let t = TaskStateSegment::new();
    let b = &t as *const _ as usize;
    let o1 = core::ptr::addr_of!(t.privilege_stack_table) as usize - b;
    let o2 = core::ptr::addr_of!(t.interrupt_stack_table) as usize - b;
    let o3 = core::ptr::addr_of!(t.iomap_base) as usize - b;
    if o1 != 4 || o2 != 0x24 || o3 != 0x66 || core::mem::size_of::<TaskStateSegment>() != 0x68 {
        r.viol("C15|TaskStateSegment|layout-wrong", "tss layout", &format!("{:#x} {:#x} {:#x} size {:#x}", o1, o2, o3, core::mem::size_of::<TaskStateSegment>()));
    }
    let bytes: [u8; 0x68] = unsafe { core::mem::transmute_copy(&t) };
    let iob = u16::from_le_bytes([bytes[0x66], bytes[0x67]]);
    if iob != 0x68 || bytes[..0x66].iter().any(|&x| x != 0) {
        r.viol("C15|TaskStateSegment::new|not-zero-or-iomap-base-not-0x68", "tss new", &format!("iomap_base {:#x}", iob));
    }
    let d: TaskStateSegment = Default::default();
    let db: [u8; 0x68] = unsafe { core::mem::transmute_copy(&d) };
    if db != bytes {
        r.viol("C15|TaskStateSegment::default|differs-from-new", "tss default", "");
    }
    // field widths: writing a distinct value into each stack slot lands at 4+8i / 0x24+8i
    let mut t = TaskStateSegment::new();
    for i in 0..3 {
        t.privilege_stack_table[i] = VirtAddr::new(0x1111_0000_0000 + i as u64);
    }
    for i in 0..7 {
        t.interrupt_stack_table[i] = VirtAddr::new(0x2222_0000_0000 + i as u64);
    }
    let bytes: [u8; 0x68] = unsafe { core::mem::transmute_copy(&t) };
    for i in 0..3 {
        if u64::from_le_bytes(bytes[4 + 8 * i..12 + 8 * i].try_into().unwrap()) != 0x1111_0000_0000 + i as u64 {
            r.viol("C15|TaskStateSegment|privilege-stack-slot-misplaced", &format!("tss rsp{}", i), "");
        }
    }
    for i in 0..7 {
        if u64::from_le_bytes(bytes[0x24 + 8 * i..0x2c + 8 * i].try_into().unwrap()) != 0x2222_0000_0000 + i as u64 {
            r.viol("C15|TaskStateSegment|interrupt-stack-slot-misplaced", &format!("tss ist{}", i), "");
        }
    }
    let p = DescriptorTablePointer { limit: 0xabcd, base: VirtAddr::new(0xffff_8123_4567_89ab) };
    let pb = &p as *const _ as usize;
    let l = core::ptr::addr_of!(p.limit) as usize - pb;
    let bo = core::ptr::addr_of!(p.base) as usize - pb;
    let raw: [u8; 10] = unsafe { core::mem::transmute_copy(&p) };
    if l != 0 || bo != 2 || core::mem::size_of::<DescriptorTablePointer>() != 10 || raw[..2] != 0xabcdu16.to_le_bytes() || raw[2..] != 0xffff_8123_4567_89abu64.to_le_bytes() {
        r.viol("C15|DescriptorTablePointer|layout-wrong", "dtp layout", "");
    }
}

pub fn run(a: &Args) {
    let h = |s: &str| u64::from_str_radix(s.trim_start_matches("0x"), 16).unwrap();
    let mut r = Rep::new("C15", "descriptors");
    if let Some(c) = &a.replay {
        let t: Vec<&str> = c.split_whitespace().collect();
        match t[0] {
            "tssdesc" => tss_desc_case(&mut r, h(t[1])),
            "dpl" => dpl_case(&mut r, h(t[1]), t[2].parse().unwrap(), t[3] == "true"),
            "preset" | "ctor" => presets(&mut r),
            _ => layouts(&mut r),
        }
        r.emit();
        return;
    }
    let ptrs = b64_wide();
    for p in ptrs {
        guarded(&mut r, "C15|tss_segment|unexpected-panic", || format!("tssdesc {:#x}", p), |r| tss_desc_case(r, p));
    }
    // real statics, with arbitrary contents (the descriptor depends on the address only)
    for iomap in [0x68u16, 0xffff, 0, 1, 0x67, 0x69, 0x8000] {
        let t: &'static TaskStateSegment = Box::leak(Box::new({
            let mut t = TaskStateSegment::new();
            t.iomap_base = iomap;
            t.privilege_stack_table[0] = VirtAddr::new(0xffff_8000_dead_b000);
            t.interrupt_stack_table[6] = VirtAddr::new(0x7fff_ffff_f000);
            t
        }));
        r.ev(true);
        match Descriptor::tss_segment(t) {
            Descriptor::SystemSegment(lo, hi) => {
                let x = decode_sys(lo, hi);
                if x.base != t as *const _ as u64 || x.limit != 0x67 || x.typ != 9 || !x.p || x.s || x.dpl != 0 || x.g || x.l || x.db || x.avl || x.upper_reserved != 0 {
                    r.viol("C15|tss_segment(&'static)|descriptor-depends-on-the-TSS-contents-or-wrong", &format!("tssstatic iomap_base={:#x}", iomap), &format!("limit {:#x} base {:#x}", x.limit, x.base));
                }
            }
            _ => r.viol("C15|tss_segment(&'static)|not-a-system-descriptor", "tssstatic", ""),
        }
    }
    guarded(&mut r, "C15|presets|unexpected-panic", || "preset".into(), |r| presets(r));
    let mut bases: Vec<u64> = vec![0, u64::MAX];
    for b in 0..64 {
        bases.push(1u64 << b);
        bases.push(!(1u64 << b));
    }
    for &b in &bases {
        for dpl in 0..4u8 {
            guarded(&mut r, "C15|Descriptor::dpl|unexpected-panic", || format!("dpl {:#x} {} false", b, dpl), |r| dpl_case(r, b, dpl, false));
            guarded(&mut r, "C15|Descriptor::dpl|unexpected-panic", || format!("dpl {:#x} {} true", b, dpl), |r| dpl_case(r, b, dpl, true));
        }
    }
    guarded(&mut r, "C15|layouts|unexpected-panic", || "layout".into(), |r| layouts(r));
    r.nontrivial = r.evals;
    r.sample("tssdesc 0xffff800001000000 (base split over bits 16-39, 56-63 and the high dword)".into());
    guarded(&mut r, "C15|const-context|unexpected-panic", || "constctx".into(), |r| crate::constctx::tables(r, "C15"));
    r.sample("dpl 0xffffffffffffffff 2 true".into());
    {
        r.note("pointer alphabet = every u64 with <=3 set bits, <=3 clear bits, every contiguous run of ones (~90k values)");
    }
    r.note("the descriptor is a pure function of the pointer: B64 covers every single address bit alone and every all-but-one pattern");
    r.emit();
}
