//! Shared boundary alphabets (DESIGN §4).
pub const GAP_LO_END: u64 = 0x0000_7fff_ffff_ffff; // last lower-half address
pub const GAP_HI_START: u64 = 0xffff_8000_0000_0000; // first upper-half address

pub fn sext48(x: u64) -> u64 {
    (((x << 16) as i64) >> 16) as u64
}
pub fn is_canon(x: u64) -> bool {
    sext48(x) == x
}
pub fn is_phys(x: u64) -> bool {
    x < (1u64 << 52)
}

fn around(v: &mut Vec<u64>, c: u64) {
    for d in [0u64, 1, 2, 0x1000, 0x20_0000, 0x4000_0000] {
        v.push(c.wrapping_add(d));
        v.push(c.wrapping_sub(d));
    }
}

/// ~700 u64 boundary values.
pub fn b64() -> Vec<u64> {
    let mut v: Vec<u64> = Vec::new();
    for i in 0..=4u64 {
        v.push(i);
        v.push(u64::MAX - i);
    }
    for k in 1..64 {
        let p = 1u64 << k;
        for d in 0..=2u64 {
            v.push(p.wrapping_add(d));
            v.push(p.wrapping_sub(d));
        }
        v.push(!p); // complement of a single bit
    }
    v.push(!1u64);
    around(&mut v, GAP_LO_END);
    around(&mut v, GAP_LO_END + 1);
    around(&mut v, GAP_HI_START - 1);
    around(&mut v, GAP_HI_START);
    around(&mut v, 1u64 << 52);
    around(&mut v, (1u64 << 52) - 1);
    around(&mut v, (1u64 << 48) - 1);
    around(&mut v, 1u64 << 48);
    for s in [0x1000u64, 0x20_0000, 0x4000_0000] {
        for m in [1u64, 2, 3, 511, 512, 513] {
            v.push(s * m);
            v.push(s * m - 1);
            v.push(s * m + 1);
        }
    }
    v.extend_from_slice(&[
        0x0123_4567_89ab_cdef,
        0xfedc_ba98_7654_3210,
        0xaaaa_aaaa_aaaa_aaaa,
        0x5555_5555_5555_5555,
        0x0000_1234_5678_9abc,
        0xffff_9234_5678_9abc,
        0x000f_edcb_a987_6000,
        0x0000_0181_c0e0_9000, // indices (3,7,7,9)
    ]);
    // irregular mid-range patterns (fixed: multiples of the 64-bit golden-ratio constant and of a second odd constant),
    // so that a defect tied to "some bit in the middle" or to an unremarkable value is not invisible between the boundaries
    for i in 1..=24u64 {
        v.push(i.wrapping_mul(0x9e37_79b9_7f4a_7c15));
        v.push(i.wrapping_mul(0xd1b5_4a32_d192_ed03) >> (i % 17));
    }
    v.sort_unstable();
    v.dedup();
    v
}

/// Smaller boundary set (~120 values) used where the domain is squared.
pub fn b64_small() -> Vec<u64> {
    let mut v: Vec<u64> = Vec::new();
    for i in 0..=2u64 {
        v.push(i);
        v.push(u64::MAX - i);
    }
    for k in [11u32, 12, 13, 20, 21, 22, 29, 30, 31, 38, 39, 40, 46, 47, 48, 51, 52, 53, 63] {
        let p = 1u64 << k;
        v.push(p);
        v.push(p - 1);
        v.push(p + 1);
    }
    for c in [GAP_LO_END, GAP_LO_END + 1, GAP_HI_START - 1, GAP_HI_START, (1u64 << 52) - 1] {
        for d in [0u64, 1, 0x1000, 0x20_0000, 0x4000_0000] {
            v.push(c.wrapping_add(d));
            v.push(c.wrapping_sub(d));
        }
    }
    v.extend_from_slice(&[0x0123_4567_89ab_cdef, 0xfedc_ba98_7654_3210, 0x0000_1234_5678_9abc, 0xffff_9234_5678_9abc]);
    for i in 1..=6u64 {
        v.push(i.wrapping_mul(0x9e37_79b9_7f4a_7c15));
        v.push(i.wrapping_mul(0xd1b5_4a32_d192_ed03) >> (7 * i));
    }
    v.sort_unstable();
    v.dedup();
    v
}

/// Canonical members of b64 plus images of the others under sign extension.
pub fn canon() -> Vec<u64> {
    let mut v: Vec<u64> = b64().into_iter().map(sext48).collect();
    v.sort_unstable();
    v.dedup();
    v
}
pub fn canon_small() -> Vec<u64> {
    let mut v: Vec<u64> = b64_small().into_iter().map(sext48).collect();
    v.sort_unstable();
    v.dedup();
    v
}
/// <2^52 members of b64 plus images of the others under truncation.
pub fn phys() -> Vec<u64> {
    let mut v: Vec<u64> = b64().into_iter().map(|x| x & ((1u64 << 52) - 1)).collect();
    v.sort_unstable();
    v.dedup();
    v
}
pub fn phys_small() -> Vec<u64> {
    let mut v: Vec<u64> = b64_small().into_iter().map(|x| x & ((1u64 << 52) - 1)).collect();
    v.sort_unstable();
    v.dedup();
    v
}

/// position model of the canonical address space: 2^48 positions.
pub fn pos(a: u64) -> u64 {
    a & 0xffff_ffff_ffff
}
pub fn from_pos(p: u64) -> u64 {
    debug_assert!(p < (1u64 << 48));
    sext48(p)
}

/// Thorough-tier alphabet (~90k values): every u64 with at most three set bits, every u64 with at most
/// three clear bits, every contiguous run of ones, and b64. Exhaustive over these bit shapes.
pub fn b64_wide() -> Vec<u64> {
    let mut v = b64();
    v.push(0);
    for i in 0..64 {
        v.push(1u64 << i);
        for j in 0..i {
            v.push(1u64 << i | 1u64 << j);
            for k in 0..j {
                v.push(1u64 << i | 1u64 << j | 1u64 << k);
            }
        }
        // runs of ones [j, i]
        for j in 0..=i {
            let hi = if i == 63 { u64::MAX } else { (1u64 << (i + 1)) - 1 };
            v.push(hi & !((1u64 << j) - 1));
        }
    }
    let n = v.len();
    for i in 0..n {
        v.push(!v[i]);
    }
    v.sort_unstable();
    v.dedup();
    v
}
