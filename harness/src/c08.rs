//! C08 — page-table entries and tables encode exactly what was stored, in hardware layout.
use crate::out::*;
use crate::Args;
use std::collections::{BTreeSet, VecDeque};
use x86_64::structures::paging::page_table::{FrameError, PageTableEntry};
use x86_64::structures::paging::{PageTable, PageTableFlags as F, PageTableIndex, PhysFrame, Size4KiB};
use x86_64::PhysAddr;

/// R4: hardware layout of a 64-bit paging entry.
const ADDR_MASK: u64 = 0x000f_ffff_ffff_f000;
const FLAG_MASK: u64 = 0xfff0_0000_0000_0fff; // bits 0-11 and 52-63

fn raw(e: &PageTableEntry) -> u64 {
    unsafe { *(e as *const PageTableEntry as *const u64) }
}
fn mk(rawv: u64) -> PageTableEntry {
    unsafe { core::mem::transmute::<u64, PageTableEntry>(rawv) }
}

#[derive(Clone, Copy, Debug)]
pub enum Act {
    SetAddr(u64, u64),
    SetFrame(u64, u64),
    SetFlags(u64),
    SetUnused,
}

fn addrs() -> Vec<u64> {
    let mut v = vec![0u64, ADDR_MASK, 0x0000_0000_dead_b000, 0x000a_aaaa_aaaa_a000, 0x0005_5555_5555_5000];
    for b in 12..52 {
        v.push(1u64 << b);
    }
    v.sort_unstable();
    v.dedup();
    v
}
fn flagsets() -> Vec<u64> {
    let mut v = vec![0u64, FLAG_MASK, 1, 3, 7, 0x83, 1 | (1 << 63), 0x8000_0000_0000_0107, 0x7ff0_0000_0000_0e00];
    for b in (0..12).chain(52..64) {
        v.push(1u64 << b);
        v.push(1 | (1u64 << b));
    }
    v.sort_unstable();
    v.dedup();
    v
}

/// Apply one action to a copy of the entry; returns (new raw, expected raw) or None on panic.
pub fn step(r: &mut Rep, s: u64, a: Act) -> Option<u64> {
    let mut e = mk(s);
    let (exp, what): (u64, &str) = match a {
        Act::SetAddr(ad, f) => (ad | f, "set_addr"),
        Act::SetFrame(ad, f) => (ad | f, "set_frame"),
        Act::SetFlags(f) => ((s & ADDR_MASK) | f, "set_flags"),
        Act::SetUnused => (0, "set_unused"),
    };
    let ok = catch(|| match a {
        Act::SetAddr(ad, f) => e.set_addr(PhysAddr::new(ad), F::from_bits_retain(f)),
        Act::SetFrame(ad, f) => e.set_frame(PhysFrame::<Size4KiB>::from_start_address(PhysAddr::new(ad)).unwrap(), F::from_bits_retain(f)),
        Act::SetFlags(f) => e.set_flags(F::from_bits_retain(f)),
        Act::SetUnused => e.set_unused(),
    });
    let case = format!("entry {:#x} {:?}", s, a);
    if ok.is_err() {
        r.viol(&format!("C08|{}|panics-on-valid-input", what), &case, "");
        return None;
    }
    let g = raw(&e);
    if g != exp {
        r.viol(&format!("C08|{}|raw-encoding-wrong", what), &case, &format!("raw {:#x} expected {:#x}", g, exp));
    }
    // read-back on the resulting entry
    let ea = exp & ADDR_MASK;
    let ef = exp & FLAG_MASK;
    match catch(|| e.addr().as_u64()) {
        Ok(x) if x == ea => {}
        o => r.viol("C08|addr()|read-back-wrong", &case, &format!("{:x?} expected {:#x}", o, ea)),
    }
    if e.flags().bits() & FLAG_MASK != ef {
        r.viol("C08|flags()|read-back-wrong", &case, &format!("{:#x} expected {:#x}", e.flags().bits() & FLAG_MASK, ef));
    }
    if e.is_unused() != (g == 0) {
        r.viol("C08|is_unused()|not-iff-all-zero", &case, "");
    }
    match catch(|| e.frame()) {
        Ok(Ok(fr)) => {
            if ef & 1 == 0 || fr.start_address().as_u64() != ea {
                r.viol("C08|frame()|wrong", &case, &format!("Ok({:#x})", fr.start_address().as_u64()));
            }
        }
        Ok(Err(FrameError::FrameNotPresent)) => {
            if ef & 1 != 0 {
                r.viol("C08|frame()|rejects-present-entry", &case, "");
            }
        }
        _ => r.viol("C08|frame()|unexpected-error-or-panic", &case, ""),
    }
    Some(g)
}

/// successor only (real code, no oracles) — used for states owned by other shards
fn fast(s: u64, a: Act) -> Option<u64> {
    let mut e = mk(s);
    catch(|| match a {
        Act::SetAddr(ad, f) => e.set_addr(PhysAddr::new(ad), F::from_bits_retain(f)),
        Act::SetFrame(ad, f) => e.set_frame(PhysFrame::<Size4KiB>::from_start_address(PhysAddr::new(ad)).unwrap(), F::from_bits_retain(f)),
        Act::SetFlags(f) => e.set_flags(F::from_bits_retain(f)),
        Act::SetUnused => e.set_unused(),
    })
    .ok()?;
    Some(raw(&e))
}

/// every combination of the twelve low flag bits and of the twelve high flag bits (2 x 4096 flag words, plus both at once),
/// stored over several prior contents through set_flags / set_addr / set_frame: no flag combination is special
fn flag_combinations(r: &mut Rep, a: &Args) {
    let priors = [0u64, ADDR_MASK | FLAG_MASK, 0x0000_0012_3456_7000 | 0x8000_0000_0000_0067, 0x0007_0000_6000 | 0x63, 1, 0x8000_0000_0000_0000];
    let targets = [0u64, 0x0000_0007_0000_6000, 0x0000_0002_0000_4000, ADDR_MASK];
    let mut n = 0usize;
    for c in 0..4096u64 {
        for f in [c, c << 52, c | c << 52, c | (!c & 0xfff) << 52] {
            n += 1;
            if n % a.nshards != a.shard {
                continue;
            }
            for &s in &priors {
                r.transitions += 1;
                let _ = step(r, s, Act::SetFlags(f));
                let t = targets[(c as usize + (s as usize & 3)) % targets.len()];
                let _ = step(r, s, Act::SetAddr(t, f));
                let _ = step(r, s, Act::SetFrame(t, f));
            }
        }
    }
}

/// bit 12 is an address bit of a 4 KiB-granular address and, as PageTableFlags bit 12, the PAT bit of huge-page leaves: when
/// both carry it the entry still holds the bitwise union (raw == addr | flags) — nothing is added, carried or dropped
fn overlapping_bit(r: &mut Rep) {
    for &ad in &[0x1000u64, 0x0000_0001_2345_7000, 0x0000_0001_2345_6000, ADDR_MASK, ADDR_MASK & !0x1000, 0x3000, 0x2000] {
        for &f in &[0x1000u64, 0x1001, 0x1003, 0x1083, 0x8000_0000_0000_1fff, 0x1000 | FLAG_MASK] {
            for &s in &[0u64, u64::MAX, 0x0000_0000_0000_5003] {
                r.transitions += 1;
                let mut e = mk(s);
                let case = format!("entry {:#x} SetAddr({}, {}) [flag bit 12 overlaps the address]", s, ad, f);
                if catch(|| e.set_addr(PhysAddr::new(ad), F::from_bits_retain(f))).is_err() || raw(&e) != ad | f {
                    r.viol("C08|set_addr|raw-encoding-is-not-the-bitwise-union-when-flag-bit-12-overlaps-the-address", &case, &format!("raw {:#x} expected {:#x}", raw(&e), ad | f));
                }
                let mut e = mk(s);
                if catch(|| e.set_frame(PhysFrame::<Size4KiB>::containing_address(PhysAddr::new(ad)), F::from_bits_retain(f))).is_err() || raw(&e) != ad | f {
                    r.viol("C08|set_frame|raw-encoding-is-not-the-bitwise-union-when-flag-bit-12-overlaps-the-address", &case, &format!("raw {:#x} expected {:#x}", raw(&e), ad | f));
                }
            }
        }
    }
}

fn search(r: &mut Rep, a: &Args) {
    let ad = addrs();
    let fl = flagsets();
    let mut acts: Vec<Act> = vec![Act::SetUnused];
    for &f in &fl {
        acts.push(Act::SetFlags(f));
    }
    for &x in &ad {
        for &f in &fl {
            acts.push(Act::SetAddr(x, f));
            acts.push(Act::SetFrame(x, f));
        }
    }
    let mut seen: BTreeSet<u64> = BTreeSet::new();
    let mut q: VecDeque<(u64, u32)> = VecDeque::new();
    seen.insert(0);
    q.push_back((0, 0));
    let mut n = 0usize;
    while let Some((s, d)) = q.pop_front() {
        // caps inside the engine: a broken entry type can make the reachable set explode
        if seen.len() > 20_000 || r.total_viol > 2_000 {
            r.caps.push(format!("search stopped at {} states / {} violations (cap)", seen.len(), r.total_viol));
            break;
        }
        r.max_depth = r.max_depth.max(d as u64);
        n += 1;
        let mine = n % a.nshards == a.shard;
        for &act in &acts {
            // every shard walks the whole (small) graph for the visited set; oracles/counters only on its share
            let g = if mine {
                r.transitions += 1;
                step(r, s, act)
            } else {
                fast(s, act)
            };
            if let Some(g) = g {
                if seen.insert(g) {
                    q.push_back((g, d + 1));
                }
            }
        }
    }
    if a.shard == 0 {
        r.states = seen.len() as u64;
    }
    r.exhaustive = r.caps.is_empty();
}

fn table_checks(r: &mut Rep) {
    r.ev(true);
    if core::mem::size_of::<PageTable>() != 4096 || core::mem::align_of::<PageTable>() != 4096 || core::mem::size_of::<PageTableEntry>() != 8 {
        r.viol("C08|PageTable|size-or-alignment-wrong", "table layout", "");
    }
    let mut t: Box<PageTable> = Box::new(PageTable::new());
    let bytes = |t: &PageTable| -> Vec<u8> { unsafe { core::slice::from_raw_parts(t as *const PageTable as *const u8, 4096).to_vec() } };
    if bytes(&t).iter().any(|&b| b != 0) || !t.is_empty() {
        r.viol("C08|PageTable::new|not-all-zero-or-not-empty", "table new", "");
    }
    if t.iter().count() != 512 || t.iter_mut().count() != 512 {
        r.viol("C08|PageTable::iter|not-512-entries", "table iter", "");
    }
    let val = |path: usize, i: usize| -> u64 { 0x0000_0001_0000_0000u64 * (i as u64 + 1) + 0x1000 * (path as u64 + 1) + 1 };
    for path in 0..3usize {
        for i in 0..512usize {
            r.ev(true);
            let v = val(path, i);
            let fl = F::from_bits_retain(v & FLAG_MASK);
            let ad = PhysAddr::new(v & ADDR_MASK);
            let w = catch(|| match path {
                0 => t[i].set_addr(ad, fl),
                1 => t[PageTableIndex::new(i as u16)].set_addr(ad, fl),
                _ => t.iter_mut().nth(i).unwrap().set_addr(ad, fl),
            });
            let case = format!("table slot {} path {}", i, path);
            if w.is_err() {
                r.viol("C08|PageTable|access-path-panics", &case, "");
                continue;
            }
            let b = bytes(&t);
            let le = u64::from_le_bytes(b[8 * i..8 * i + 8].try_into().unwrap());
            let r0 = raw(&t[i]);
            let r1 = raw(&t[PageTableIndex::new(i as u16)]);
            let r2 = raw(t.iter().nth(i).unwrap());
            let r3 = raw(t.iter_mut().nth(i).unwrap());
            if le != v || r0 != v || r1 != v || r2 != v || r3 != v {
                r.viol("C08|PageTable|access-paths-disagree-or-wrong-slot", &case, &format!("bytes {:#x} idx {:#x} tidx {:#x} iter {:#x} iter_mut {:#x} expected {:#x}", le, r0, r1, r2, r3, v));
            }
            // all other slots unchanged relative to what previous writes left (slot j holds val(path,j) for j<i, val(path-1,j) for j>i)
            for j in [i.wrapping_sub(1), i + 1] {
                if j < 512 {
                    let ev = if j < i { val(path, j) } else if path > 0 { val(path - 1, j) } else { 0 };
                    if u64::from_le_bytes(b[8 * j..8 * j + 8].try_into().unwrap()) != ev {
                        r.viol("C08|PageTable|write-touched-neighbour-slot", &case, &format!("slot {}", j));
                    }
                }
            }
        }
        if t.is_empty() {
            r.viol("C08|PageTable::is_empty|true-for-full-table", "table full", "");
        }
    }
    // index out of range must not alias a slot
    if catch(|| raw(&t[512])).is_ok() {
        r.viol("C08|PageTable|index-512-accepted", "table index 512", "");
    }
    // ... whatever the out-of-range number: every boundary / few-bit value from 512 up, for reads and writes
    for n in crate::b64::b64().into_iter().chain((9..64).flat_map(|b| (0..9).map(move |j| (1u64 << b) | (1u64 << j) | 3))) {
        if n < 512 {
            continue;
        }
        r.ev(true);
        let before = bytes(&t);
        let rd = catch(|| raw(&t[n as usize])).is_ok();
        let wrr = catch(|| t[n as usize].set_unused()).is_ok();
        if rd || wrr || bytes(&t) != before {
            r.viol("C08|PageTable|numeric-index-beyond-511-is-accepted-or-aliases-a-slot", &format!("table index {:#x}", n), &format!("read accepted {}, write accepted {}", rd, wrr));
            break;
        }
    }
    t.zero();
    if bytes(&t).iter().any(|&b| b != 0) || !t.is_empty() {
        r.viol("C08|PageTable::zero|not-all-zero-or-not-empty", "table zero", "");
    }
    // one non-zero byte anywhere => not empty
    for pos in 0..4096usize {
        r.ev(true);
        unsafe { *(&mut *t as *mut PageTable as *mut u8).add(pos) = 0x80 };
        if t.is_empty() {
            r.viol("C08|PageTable::is_empty|ignores-nonzero-byte", &format!("table byte {}", pos), "");
        }
        unsafe { *(&mut *t as *mut PageTable as *mut u8).add(pos) = 0 };
    }
    if !t.is_empty() {
        r.viol("C08|PageTable::is_empty|false-for-zero-table", "table rezero", "");
    }
    // whole-table copies: clone() and clone_from() reproduce the source byte for byte, whatever the destination held before
    {
        let mut src = Box::new(PageTable::new());
        for i in [0usize, 7, 8, 200, 511] {
            unsafe { *(&mut *src as *mut PageTable as *mut u64).add(i) = 0x0000_0001_2345_6000 + 0x1000 * i as u64 | 3 };
        }
        let mut dst: Box<PageTable> = Box::new((*src).clone());
        r.ev(true);
        if bytes(&dst) != bytes(&src) {
            r.viol("C08|PageTable::clone|copy-differs-from-the-source", "table clone", "");
        }
        // destinations: full of other entries, a superset of the source, empty
        for variant in 0..3 {
            for k in 0..512usize {
                let v = match variant { 0 => 0xffff_ffff_ffff_ffffu64, 1 => if k % 2 == 1 { 0x0000_0009_9999_9000 | 1 } else { 0 }, _ => 0 };
                unsafe { *(&mut *dst as *mut PageTable as *mut u64).add(k) = v };
            }
            (*dst).clone_from(&*src);
            r.ev(true);
            if bytes(&dst) != bytes(&src) {
                r.viol("C08|PageTable::clone_from|destination-keeps-entries-the-source-does-not-have", &format!("table clone_from variant {}", variant), "");
            }
        }
        // after the source lost an entry, and from an empty source
        unsafe { *(&mut *src as *mut PageTable as *mut u64).add(7) = 0 };
        (*dst).clone_from(&*src);
        let empty = PageTable::new();
        let mut d2: Box<PageTable> = Box::new((*src).clone());
        (*d2).clone_from(&empty);
        r.ev(true);
        if bytes(&dst) != bytes(&src) || !d2.is_empty() || bytes(&d2).iter().any(|&b| b != 0) {
            r.viol("C08|PageTable::clone_from|destination-keeps-entries-the-source-does-not-have", "table clone_from after set_unused / from empty", "");
        }
    }
    // iter() / iter_mut() through the adapters that a hand-written iterator could implement itself (nth, skip, step_by, count,
    // last, size_hint, take/skip combinations as used by clean-up): the slots they yield are the slots indexing addresses
    {
        for i in 0..512usize {
            unsafe { *(&mut *t as *mut PageTable as *mut u64).add(i) = 0x1000 * (i as u64 + 1) | 1 };
        }
        let want: Vec<u64> = (0..512u64).map(|i| 0x1000 * (i + 1) | 1).collect();
        let mut ks: Vec<usize> = (0..=12).chain([63, 64, 100, 255, 256, 257, 500, 510, 511, 512, 513, 600, usize::MAX]).collect();
        ks.sort_unstable();
        for &k in &ks {
            r.ev(true);
            let case = format!("table iter adapters k={}", k);
            let exp_skip: Vec<u64> = want.iter().copied().skip(k).collect();
            let a1 = catch(|| t.iter().skip(k).take(1024).map(raw).collect::<Vec<u64>>());
            let a2 = catch(|| t.iter_mut().skip(k).take(1024).map(|e| raw(e)).collect::<Vec<u64>>());
            if a1 != Ok(exp_skip.clone()) || a2 != Ok(exp_skip.clone()) {
                r.viol("C08|PageTable::iter/iter_mut|skip-yields-other-slots-than-indexing", &case, "");
            }
            let n1 = catch(|| { let mut it = t.iter(); let x = it.nth(k).map(raw); (x, it.next().map(raw), it.take(1024).count()) });
            let n2 = catch(|| { let mut it = t.iter_mut(); let x = it.nth(k).map(|e| raw(e)); (x, it.next().map(|e| raw(e)), it.take(1024).count()) });
            let en = (want.get(k).copied(), k.checked_add(1).and_then(|j| want.get(j)).copied(), 512usize.saturating_sub(k.saturating_add(2)));
            if n1 != Ok(en) || n2 != Ok(en) {
                r.viol("C08|PageTable::iter/iter_mut|nth-then-next-yields-other-slots-than-indexing", &case, &format!("{:x?} {:x?} expected {:x?}", n1, n2, en));
            }
            if k >= 1 {
                let es: Vec<u64> = want.iter().copied().step_by(k).collect();
                if catch(|| t.iter().step_by(k).take(1024).map(raw).collect::<Vec<u64>>()) != Ok(es.clone()) || catch(|| t.iter_mut().step_by(k).take(1024).map(|e| raw(e)).collect::<Vec<u64>>()) != Ok(es) {
                    r.viol("C08|PageTable::iter/iter_mut|step_by-yields-other-slots-than-indexing", &case, "");
                }
            }
            // the shape clean-up uses: enumerate().take(end + 1).skip(start)
            if k < 512 {
                let e2: Vec<(usize, u64)> = (k..=(k + 7).min(511)).map(|i| (i, want[i])).collect();
                let g1 = catch(|| t.iter().enumerate().take((k + 7).min(511) + 1).skip(k).take(1024).map(|(i, e)| (i, raw(e))).collect::<Vec<_>>());
                let g2 = catch(|| t.iter_mut().enumerate().take((k + 7).min(511) + 1).skip(k).take(1024).map(|(i, e)| (i, raw(e))).collect::<Vec<_>>());
                if g1 != Ok(e2.clone()) || g2 != Ok(e2) {
                    r.viol("C08|PageTable::iter/iter_mut|enumerate-take-skip-pairs-indices-with-other-slots", &case, "");
                }
            }
        }
        let h1 = catch(|| (t.iter().size_hint(), t.iter().take(1024).count(), t.iter().take(1024).last().map(raw)));
        let h2 = catch(|| {
            let a = t.iter_mut().size_hint();
            let b = t.iter_mut().take(1024).count();
            let c = t.iter_mut().take(1024).last().map(|e| raw(e));
            (a, b, c)
        });
        for h in [h1, h2] {
            match h {
                Ok(((lo, hi), 512, Some(l))) if lo <= 512 && hi.map_or(true, |x| x >= 512) && l == want[511] => {}
                o => r.viol("C08|PageTable::iter/iter_mut|size_hint/count/last-wrong", "table iter adapters", &format!("{:x?}", o)),
            }
        }
        // writes through adapted iter_mut land in the slots indexing reads
        let _ = catch(|| { for (i, e) in t.iter_mut().skip(5).step_by(3).take(1024).enumerate() { e.set_addr(PhysAddr::new(0x10_0000 + 0x1000 * i as u64), F::from_bits_retain(3)); } });
        for i in 0..512usize {
            let exp = if i >= 5 && (i - 5) % 3 == 0 { (0x10_0000 + 0x1000 * ((i - 5) / 3) as u64) | 3 } else { want[i] };
            if raw(&t[i]) != exp {
                r.viol("C08|PageTable::iter_mut|write-through-skip/step_by-lands-in-another-slot", &format!("table iter adapters slot {}", i), &format!("{:#x} expected {:#x}", raw(&t[i]), exp));
                break;
            }
        }
        t.zero();
    }
    // zero() / is_empty() on sparse, clustered and striped populations: every pair of slots, every stride, runs at both ends
    {
        let vals = [0x8000_0000_1254_4003u64, 1, 0x1000, u64::MAX, 1 << 63];
        let bp = |t: &PageTable| t as *const PageTable as *mut u64;
        let all_zero = |t: &PageTable| (0..512).all(|k| unsafe { *bp(t).add(k) } == 0);
        let mut populations: Vec<Vec<usize>> = Vec::new();
        for i in 0..512usize {
            for j in (i + 1)..512 {
                // all pairs would be 130k tables x 512 writes: take every pair with a boundary/irregular member, and a coprime lattice of the rest
                if i < 3 || j > 508 || j - i < 3 || i == 255 || j == 256 || (i * 7 + j * 13) % 31 == 0 {
                    populations.push(vec![i, j]);
                }
            }
        }
        for stride in 2..=64usize {
            populations.push((0..512).step_by(stride).collect());
            populations.push((1..512).step_by(stride).collect());
        }
        for gap in 1..=20usize {
            populations.push(vec![0, 1, 2, 3 + gap, 511]);
            populations.push((0..512).filter(|k| *k != gap * 25 % 512).collect());
        }
        for (pi, pop) in populations.iter().enumerate() {
            r.ev(true);
            for (k, &slot) in pop.iter().enumerate() {
                unsafe { *bp(&t).add(slot) = vals[(pi + k) % vals.len()] };
            }
            let was_empty = t.is_empty();
            t.zero();
            if was_empty || !all_zero(&t) || !t.is_empty() {
                let left: Vec<usize> = (0..512).filter(|&k| unsafe { *bp(&t).add(k) } != 0).collect();
                r.viol("C08|zero/is_empty|a-populated-table-reports-empty-or-zero()-leaves-entries", &format!("table population {:?}", &pop[..pop.len().min(8)]), &format!("{} slots populated, is_empty before {}, left after zero(): {:?}", pop.len(), was_empty, &left[..left.len().min(8)]));
                // restore for the following cases
                for k in 0..512 {
                    unsafe { *bp(&t).add(k) = 0 };
                }
            }
        }
    }
    let d = PageTable::default();
    if !d.is_empty() || !PageTableEntry::new().is_unused() || raw(&PageTableEntry::default()) != 0 {
        r.viol("C08|default|not-empty", "default", "");
    }
}

pub fn run(a: &Args) {
    if let Some(c) = &a.replay {
        let mut r = Rep::new("C08", "replay");
        let t: Vec<&str> = c.split_whitespace().collect();
        let h = |s: &str| u64::from_str_radix(s.trim_start_matches("0x").trim_end_matches(|c| c == ',' || c == ')'), 16).unwrap();
        if t[0] == "entry" {
            let s = h(t[1]);
            let rest = t[2..].join(" ");
            let nums: Vec<u64> = rest.split(|c| c == '(' || c == ',' || c == ')').filter_map(|x| x.trim().parse::<u64>().ok()).collect();
            let act = if rest.starts_with("SetAddr") { Act::SetAddr(nums[0], nums[1]) } else if rest.starts_with("SetFrame") { Act::SetFrame(nums[0], nums[1]) } else if rest.starts_with("SetFlags") { Act::SetFlags(nums[0]) } else { Act::SetUnused };
            step(&mut r, s, act);
        } else {
            table_checks(&mut r);
        }
        r.emit();
        return;
    }
    let mut r = Rep::new("C08", "entry-search");
    search(&mut r, a);
    guarded(&mut r, "C08|entry|unexpected-panic", || "entry flag-combinations".into(), |r| flag_combinations(r, a));
    if a.shard == 0 {
        guarded(&mut r, "C08|entry|unexpected-panic", || "entry overlapping-bit".into(), |r| overlapping_bit(r));
    }
    r.sample("entry 0x0 SetAddr(4096, 1)  -> raw 0x1001".into());
    r.sample("entry 0x8000000000000fff... SetFlags(1<<63) leaves the address".into());
    r.note("explicit-state search to fixpoint: state = raw u64 of a real PageTableEntry; alphabet 45 aligned addresses (every single address bit) x ~58 flag sets (every single flag bit 0-11,52-63)");
    r.note("flags() compared on bits 0-11 and 52-63 only; bit 12 belongs to the address for 4KiB-aligned addresses (O2)");
    r.nontrivial = r.transitions;
    r.emit();
    if a.shard == 0 {
        let mut r = Rep::new("C08", "table");
        guarded(&mut r, "C08|PageTable|unexpected-panic", || "table".into(), |r| table_checks(r));
        guarded(&mut r, "C08|const-context|unexpected-panic", || "constctx".into(), |r| crate::constctx::tables(r, "C08"));
        r.exhaustive = true;
        r.sample("table slot 511 path 2 (iter_mut) read back through [usize], [PageTableIndex], iter, raw LE bytes".into());
        r.emit();
    }
}
