//! C11 parts b-d — flush operations invalidate exactly what they are asked to (E4).
use crate::b64::*;
use crate::out::*;
use crate::simcpu::{cpu, run_fault, run_stepped, Ev};
use crate::Args;
use x86_64::instructions::tlb::{self, InvPcidCommand, Invlpgb, Pcid};
use x86_64::structures::paging::mapper::{MapperFlush, MapperFlushAll};
use x86_64::structures::paging::{Page, PageSize, Size1GiB, Size2MiB, Size4KiB};
use x86_64::VirtAddr;

fn one<R>(step: bool, f: impl FnOnce() -> R) -> (Result<R, ()>, Vec<Ev>) {
    cpu().clear_events();
    let r = if step { run_stepped(f) } else { run_fault(f) };
    (r, cpu().evs())
}

fn flush_single(r: &mut Rep, a: &Args) {
    for (i, v) in canon().into_iter().enumerate() {
        let step = i % 8 == 0 || a.thorough();
        let (_, ev) = one(step, || tlb::flush(VirtAddr::new(v)));
        r.ev(true);
        if ev != [Ev::Invlpg(v)] {
            r.viol("C11|tlb::flush|not-one-invlpg-of-the-given-address", &format!("flush {:#x}", v), &format!("{:x?}", ev));
        }
        macro_rules! tok {
            ($S:ty) => {{
                let pg = Page::<$S>::containing_address(VirtAddr::new(v));
                let (_, ev) = one(step, || MapperFlush::new(pg).flush());
                r.ev(true);
                if ev != [Ev::Invlpg(pg.start_address().as_u64())] {
                    r.viol(&format!("C11|MapperFlush<{}>::flush|not-one-invlpg-of-the-page-start", <$S>::DEBUG_STR), &format!("tokflush {} {:#x}", <$S>::DEBUG_STR, v), &format!("{:x?}", ev));
                }
                let t = MapperFlush::new(pg);
                if t.page() != pg {
                    r.viol("C11|MapperFlush::page|wrong", &format!("tokpage {:#x}", v), "");
                }
                t.ignore();
            }};
        }
        tok!(Size4KiB);
        tok!(Size2MiB);
        tok!(Size1GiB);
    }
}

/// 70,000 flushes in a row (same and changing addresses, tokens, flush_all, flush_pcid): call k behaves like call 1
fn repetition(r: &mut Rep) {
    for k in 0..70_000u64 {
        let v = crate::b64::sext48(k.wrapping_mul(0x9e37_79b9_7f4a_7c15) & !0xfff);
        let pg = Page::<Size4KiB>::containing_address(VirtAddr::new(v));
        let (_, e1) = one(false, || tlb::flush(VirtAddr::new(0x7000)));
        let (_, e2) = one(false, || MapperFlush::new(pg).flush());
        cpu().cr[3] = 0x5000 | (k & 0x18);
        let (_, e3) = one(false, || tlb::flush_all());
        let pc = Pcid::new((k % 4096) as u16).unwrap();
        let (_, e4) = one(false, || unsafe { tlb::flush_pcid(InvPcidCommand::Single(pc)) });
        r.transitions += 4;
        if e1 != [Ev::Invlpg(0x7000)] || e2 != [Ev::Invlpg(v)] || e3 != [Ev::ReadCr(3, 0x5000 | (k & 0x18)), Ev::WriteCr(3, 0x5000 | (k & 0x18))] || e4 != [Ev::Invpcid(1, k % 4096, 0)] {
            r.viol("C11|flush|call-number-k-differs-from-the-first-call", &format!("flushrepeat {}", k), &format!("{:x?} {:x?} {:x?} {:x?}", e1, e2, e3, e4));
            break;
        }
    }
}

pub fn flush_all_case(r: &mut Rep, cr3: u64, step: bool) {
    for which in 0..2 {
        cpu().cr[3] = cr3;
        let (_, ev) = one(step, || if which == 0 { tlb::flush_all() } else { MapperFlushAll::new().flush_all() });
        r.ev(cr3 & 0xfe7 != 0);
        let name = if which == 0 { "tlb::flush_all" } else { "MapperFlushAll::flush_all" };
        let ok = ev.len() == 2 && ev[0] == Ev::ReadCr(3, cr3) && ev[1] == Ev::WriteCr(3, cr3);
        if !ok {
            let what = if ev.len() == 2 && matches!(ev[1], Ev::WriteCr(3, _)) { "reloads-cr3-with-a-different-value" } else { "not-a-read-and-a-write-of-cr3" };
            r.viol(&format!("C11|{}|{}", name, what), &format!("flushall {:#x} {}", cr3, step), &format!("{:x?}", ev));
        }
    }
}

fn flush_all(r: &mut Rep, a: &Args) {
    let frames = [0u64, 0x1000, 0x5000, 0x000f_ffff_ffff_f000, 0x1234_5678_9000];
    let mut lows: Vec<u64> = vec![0, 0x8, 0x10, 0x18, 0xfff, 0xa5, 0x5a];
    for b in 0..12 {
        lows.push(1 << b);
    }
    for (i, &f) in frames.iter().enumerate() {
        for (j, &l) in lows.iter().enumerate() {
            flush_all_case(r, f | l, (i + j) % 4 == 0 || a.thorough());
        }
    }
}

pub fn pcid_case(r: &mut Rep, pcid: u16, addr: u64, step: bool) {
    let p = Pcid::new(pcid).unwrap();
    let cases: [(&str, InvPcidCommand, u64, u64, u64); 4] = [
        ("Address", InvPcidCommand::Address(VirtAddr::new(addr), p), 0, pcid as u64, addr),
        ("Single", InvPcidCommand::Single(p), 1, pcid as u64, 0),
        ("All", InvPcidCommand::All, 2, 0, 0),
        ("AllExceptGlobal", InvPcidCommand::AllExceptGlobal, 3, 0, 0),
    ];
    for (n, cmd, ty, d0, d1) in cases {
        let (_, ev) = one(step, || unsafe { tlb::flush_pcid(cmd) });
        r.ev(true);
        if ev != [Ev::Invpcid(ty, d0, d1)] {
            r.viol(&format!("C11|flush_pcid|{}|wrong-type-or-descriptor", n), &format!("pcid {} {:#x} {}", pcid, addr, step), &format!("{:x?} expected Invpcid({}, {:#x}, {:#x})", ev, ty, d0, d1));
        }
    }
}

// ------------------------------------------------------------------ INVLPGB

fn make_invlpgb(count_max: u16, nested: bool, nasid: u32, cs: u16) -> Result<Option<Invlpgb>, ()> {
    let c = cpu();
    c.sel[1] = cs;
    // CPUID 8000_0008: EBX bit 3 = INVLPGB/TLBSYNC, bit 21 = nested; EDX[15:0] = max page count. 8000_000A: EBX = NASID
    c.set_cpuid(0x8000_0008, [0, (1 << 3) | ((nested as u32) << 21), 0, count_max as u32 | 0xabcd_0000]);
    c.set_cpuid(0x8000_000a, [0, nasid, 0, 0]);
    c.clear_events();
    run_stepped(|| Invlpgb::new())
}

#[derive(Clone, Copy, Debug)]
pub struct Opts {
    /// bit mask of options applied BEFORE pages() (bit 0 pcid, 1 asid, 2 global, 3 final-only, 4 nested); the others after
    pub pre: u32,
    pub pcid: Option<u16>,
    pub asid: Option<u16>,
    pub global: bool,
    pub final_only: bool,
    pub nested: bool,
    /// extra calls that must not change the requests: bit 0 a rejected asid() after the options, bit 1 a rejected asid() before
    /// them, bit 2 every value-carrying option first set to another valid value ("last call wins")
    pub noise: u8,
}

pub fn invlpgb_case<S: x86_64::structures::paging::page::NotGiantPageSize>(r: &mut Rep, inv: &Invlpgb, count_max: u16, start: u64, npages: u64, o: Opts) {
    let size = S::SIZE;
    let case = format!("invlpgb {} max={} start={:#x} n={} {:?}", S::DEBUG_STR, count_max, start, npages, o);
    // end (exclusive) in position space
    let endpos = pos(start) as u128 + npages as u128 * size as u128;
    if endpos >= 1u128 << 48 {
        return; // the exclusive end would not be a page
    }
    let end = from_pos(endpos as u64);
    let range = Page::<S>::range(Page::from_start_address(VirtAddr::new(start)).unwrap(), Page::from_start_address(VirtAddr::new(end)).unwrap());
    unsafe { crate::simcpu::RUNAWAY = Some(("C11".into(), "C11|Invlpgb::flush|does-not-terminate".into(), case.clone())) };
    cpu().clear_events();
    let res = run_fault(|| {
        let mut b0 = inv.build();
        let bad_asid = inv.nasid().min(0xffff) as u16; // first value outside 0..nasid
        if o.noise & 2 != 0 {
            let _ = unsafe { b0.asid(bad_asid) }.is_err();
        }
        if o.noise & 4 != 0 && o.pre & 1 != 0 && o.pcid.is_some() {
            unsafe { b0.pcid(Pcid::new(0x123).unwrap()) };
        }
        if o.noise & 4 != 0 && o.pre & 2 != 0 && o.asid.is_some() {
            unsafe { b0.asid(1).ok() };
        }
        // options applied before pages()
        if o.pre & 1 != 0 {
            if let Some(p) = o.pcid {
                unsafe { b0.pcid(Pcid::new(p).unwrap()) };
            }
        }
        if o.pre & 2 != 0 {
            if let Some(a) = o.asid {
                unsafe { b0.asid(a).ok() };
            }
        }
        if o.pre & 4 != 0 && o.global {
            b0.include_global();
        }
        if o.pre & 8 != 0 && o.final_only {
            b0.final_translation_only();
        }
        let b0 = if o.pre & 16 != 0 && o.nested { b0.include_nested_translations() } else { b0 };
        let mut b = b0.pages(range);
        if o.noise & 4 != 0 && o.pre & 1 == 0 && o.pcid.is_some() {
            unsafe { b.pcid(Pcid::new(0x123).unwrap()) };
        }
        if o.noise & 4 != 0 && o.pre & 2 == 0 && o.asid.is_some() {
            unsafe { b.asid(1).ok() };
        }
        if o.pre & 1 == 0 {
            if let Some(p) = o.pcid {
                unsafe { b.pcid(Pcid::new(p).unwrap()) };
            }
        }
        if o.pre & 2 == 0 {
            if let Some(a) = o.asid {
                unsafe { b.asid(a).ok() };
            }
        }
        if o.pre & 4 == 0 && o.global {
            b.include_global();
        }
        if o.pre & 8 == 0 && o.final_only {
            b.final_translation_only();
        }
        let mut b = if o.pre & 16 == 0 && o.nested { b.include_nested_translations() } else { b };
        if o.noise & 1 != 0 {
            let _ = unsafe { b.asid(bad_asid) }.is_err();
        }
        b.flush();
    });
    let ev = cpu().evs();
    r.ev(npages > 0);
    r.transitions += ev.len() as u64;
    if res.is_err() {
        r.viol("C11|Invlpgb::flush|panics", &case, "");
        return;
    }
    if cpu().overflow {
        r.viol("C11|Invlpgb::flush|does-not-terminate-within-512-requests", &case, "");
        return;
    }
    let mut covered: Vec<(u128, u128)> = vec![];
    for e in &ev {
        match *e {
            Ev::Invlpgb(rax, ecx, edx) => {
                // APM vol.3 INVLPGB: rAX[0] VA valid, [1] PCID valid, [2] ASID valid, [3] global, [4] final only, [5] nested, rAX[63:12] VA;
                // ECX[15:0] count, ECX[31] 2M stride; EDX[15:0] ASID, EDX[27:16] PCID
                let exp_low = 1 | ((o.pcid.is_some() as u64) << 1) | ((o.asid.is_some() as u64) << 2) | ((o.global as u64) << 3) | ((o.final_only as u64) << 4) | ((o.nested as u64) << 5);
                if rax & 0xfff != exp_low {
                    r.viol("C11|Invlpgb::flush|option-bits-wrong", &case, &format!("rax {:#x} expected low bits {:#x}", rax, exp_low));
                }
                let exp_edx = (o.asid.unwrap_or(0) as u32) | ((o.pcid.unwrap_or(0) as u32) << 16);
                if edx != exp_edx {
                    r.viol("C11|Invlpgb::flush|pcid-or-asid-field-wrong", &case, &format!("edx {:#x} expected {:#x}", edx, exp_edx));
                }
                let count = ecx & 0xffff;
                if (ecx >> 31 == 1) != (size == Size2MiB::SIZE) || ecx & 0x7fff_0000 != 0 {
                    r.viol("C11|Invlpgb::flush|stride-bit-wrong", &case, &format!("ecx {:#x}", ecx));
                }
                if count > count_max as u32 {
                    r.viol("C11|Invlpgb::flush|count-exceeds-the-processor-maximum", &case, &format!("count {} max {}", count, count_max));
                }
                let va = rax & !0xfff;
                if !is_canon(va) || va % size != 0 {
                    r.viol("C11|Invlpgb::flush|address-not-a-canonical-page-start", &case, &format!("{:#x}", va));
                    return;
                }
                let n = count.max(1) as u128; // the crate's own reading: the request covers max(count,1) pages
                let lo = va as u128;
                let hi = lo + n * size as u128;
                // a request must not extend across the non-canonical gap
                if va < (1 << 47) && hi > (1u128 << 47) {
                    r.viol("C11|Invlpgb::flush|request-extends-across-the-non-canonical-gap", &case, &format!("va {:#x} count {}", va, count));
                }
                covered.push((pos(va) as u128, pos(va) as u128 + n * size as u128));
            }
            other => {
                r.viol("C11|Invlpgb::flush|executes-other-instruction", &case, &format!("{:x?}", other));
            }
        }
    }
    // coverage of the whole range (position space)
    let (mut cur, endp) = (pos(start) as u128, endpos);
    covered.sort();
    for (lo, hi) in covered {
        if lo <= cur && hi > cur {
            cur = hi;
        }
    }
    if npages > 0 && cur < endp {
        r.viol("C11|Invlpgb::flush|requests-do-not-cover-the-range", &case, &format!("covered up to position {:#x} of {:#x}; {} requests", cur, endp, ev.len()));
    }
    if npages == 0 && !ev.is_empty() {
        r.viol("C11|Invlpgb::flush|empty-range-issues-requests", &case, &format!("{:x?}", ev));
    }
}

/// ranges that need more requests than the event log holds (2^32 pages and more): every request is checked as it is executed
pub fn invlpgb_huge<S: x86_64::structures::paging::page::NotGiantPageSize>(r: &mut Rep, inv: &Invlpgb, count_max: u16, start: u64, npages: u64, pcid: Option<u16>, asid: Option<u16>) {
    use crate::simcpu::InvStream;
    let size = S::SIZE;
    let case = format!("invlpgbhuge {} max={} start={:#x} n={:#x} pcid={:?} asid={:?}", S::DEBUG_STR, count_max, start, npages, pcid, asid);
    let endpos = pos(start) as u128 + npages as u128 * size as u128;
    if endpos >= 1u128 << 48 {
        return;
    }
    let end = from_pos(endpos as u64);
    let range = Page::<S>::range(Page::from_start_address(VirtAddr::new(start)).unwrap(), Page::from_start_address(VirtAddr::new(end)).unwrap());
    unsafe { crate::simcpu::RUNAWAY = Some(("C11".into(), "C11|Invlpgb::flush|does-not-terminate".into(), case.clone())) };
    cpu().clear_events();
    cpu().inv_stream = InvStream { on: true, size, count_max: count_max as u32, exp_low: 1 | ((pcid.is_some() as u64) << 1) | ((asid.is_some() as u64) << 2), exp_edx: (asid.unwrap_or(0) as u32) | ((pcid.unwrap_or(0) as u32) << 16), cur: pos(start) as u128, ..InvStream::OFF };
    let res = run_fault(|| {
        let mut b = inv.build().pages(range);
        if let Some(p) = pcid {
            unsafe { b.pcid(Pcid::new(p).unwrap()) };
        }
        if let Some(a) = asid {
            unsafe { b.asid(a).ok() };
        }
        b.flush();
    });
    let st = cpu().inv_stream;
    cpu().inv_stream = InvStream::OFF;
    r.ev(true);
    r.transitions += st.n;
    if res.is_err() {
        r.viol("C11|Invlpgb::flush|panics", &case, "");
        return;
    }
    if !cpu().evs().is_empty() {
        r.viol("C11|Invlpgb::flush|executes-other-instruction", &case, &format!("{:x?}", &cpu().evs()[..1]));
    }
    if st.bad_bits > 0 {
        r.viol("C11|Invlpgb::flush|option-bits-wrong", &case, &format!("{} of {} requests; first {:x?}", st.bad_bits, st.n, st.first_bad));
    }
    if st.bad_count > 0 {
        r.viol("C11|Invlpgb::flush|count-exceeds-the-processor-maximum", &case, &format!("{} of {} requests; first {:x?}", st.bad_count, st.n, st.first_bad));
    }
    if st.bad_addr > 0 {
        r.viol("C11|Invlpgb::flush|address-not-a-canonical-page-start", &case, &format!("{} of {} requests; first {:x?}", st.bad_addr, st.n, st.first_bad));
    }
    if st.bad_gap > 0 {
        r.viol("C11|Invlpgb::flush|request-extends-across-the-non-canonical-gap", &case, &format!("{} of {} requests; first {:x?}", st.bad_gap, st.n, st.first_bad));
    }
    if st.cur < endpos {
        r.viol("C11|Invlpgb::flush|requests-do-not-cover-the-range", &case, &format!("covered up to position {:#x} of {:#x}; {} requests", st.cur, endpos, st.n));
    }
}

fn invlpgb_all(r: &mut Rep, a: &Args) {
    let maxima: Vec<u16> = if a.thorough() { vec![0, 1, 2, 3, 7, 8, 255, 4095, 65534, 65535] } else { vec![0, 1, 3, 7, 255, 65535] };
    let mut cfg_no = 0usize;
    for &cm in &maxima {
        for nested_sup in [false, true] {
            cfg_no += 1;
            if cfg_no % a.nshards != a.shard {
                continue;
            }
            let nasid = 16u32;
            let inv = match make_invlpgb(cm, nested_sup, nasid, 0x08) {
                Ok(Some(i)) => i,
                other => {
                    r.viol("C11|Invlpgb::new|fails-on-a-supporting-processor-at-CPL0", &format!("invlpgbnew {} {}", cm, nested_sup), &format!("{:?}", other.map(|o| o.is_some())));
                    continue;
                }
            };
            r.ev(true);
            if inv.invlpgb_count_max() != cm || inv.tlb_flush_nested() != nested_sup || inv.nasid() != nasid {
                r.viol("C11|Invlpgb::new|limits-not-taken-from-cpuid", &format!("invlpgbnew {} {}", cm, nested_sup), &format!("{} {} {}", inv.invlpgb_count_max(), inv.tlb_flush_nested(), inv.nasid()));
            }
            // tlbsync
            cpu().clear_events();
            let _ = run_fault(|| inv.tlbsync());
            if cpu().evs() != [Ev::Tlbsync] {
                r.viol("C11|Invlpgb::tlbsync|not-one-tlbsync", "tlbsync", &format!("{:x?}", cpu().evs()));
            }
            // no range: exactly one request without the VA-valid bit
            cpu().clear_events();
            let _ = run_fault(|| inv.build().flush());
            let ev = cpu().evs();
            r.ev(true);
            if !(ev.len() == 1 && matches!(ev[0], Ev::Invlpgb(rax, ecx, edx) if rax == 0 && ecx == 0 && edx == 0)) {
                r.viol("C11|Invlpgb::flush|no-range-is-not-one-request-without-address", "invlpgb norange", &format!("{:x?}", ev));
            }
            // ranges given by their two ends, the end below the start: empty like any other empty range - no request at all
            for (s0, e0) in [(0x2000u64, 0x1000u64), (0x40_0000, 0x20_0000), (0x7fff_ffe0_0000, 0x1000), (0xffff_8000_0020_0000, 0x7fff_ffe0_0000), (0xffff_ffff_ffe0_0000, 0xffff_8000_0000_0000), (0x20_0000, 0)] {
                for opt in [0u32, 1, 5, 15] {
                    macro_rules! rev {
                        ($S:ty) => {{
                            if s0 % <$S>::SIZE == 0 && e0 % <$S>::SIZE == 0 {
                                let range = Page::<$S>::range(Page::from_start_address(VirtAddr::new(s0)).unwrap(), Page::from_start_address(VirtAddr::new(e0)).unwrap());
                                cpu().clear_events();
                                let _ = run_fault(|| {
                                    let mut b = inv.build();
                                    if opt & 1 != 0 { unsafe { b.pcid(Pcid::new(5).unwrap()) }; }
                                    if opt & 4 != 0 { b.include_global(); }
                                    if opt & 8 != 0 { b.final_translation_only(); }
                                    let mut b = b.pages(range);
                                    if opt & 2 != 0 { unsafe { b.asid(3).ok() }; }
                                    b.flush()
                                });
                                let ev = cpu().evs();
                                r.ev(true);
                                if !ev.is_empty() {
                                    r.viol("C11|Invlpgb::flush|empty-range-issues-requests", &format!("invlpgb reversed {} {:#x} {:#x} {}", <$S>::DEBUG_STR, s0, e0, opt), &format!("{:x?}", ev));
                                }
                            }
                        }};
                    }
                    rev!(Size4KiB);
                    rev!(Size2MiB);
                }
            }
            // asid out of range is rejected
            {
                let mut b = inv.build();
                if unsafe { b.asid(nasid as u16) }.is_ok() || unsafe { b.asid(nasid as u16 - 1) }.is_err() {
                    r.viol("C11|InvlpgbFlushBuilder::asid|range-check-wrong", "invlpgb asid", "");
                }
            }
            let lens: Vec<u64> = if a.thorough() { (0..=20).chain([63, 64, 65, 255, 256, 257, 300]).collect() } else { vec![0, 1, 2, 3, 4, 7, 8, 9, 20, 257] };
            for opt in 0..32u32 {
                let o = Opts { pre: 0, pcid: (opt & 1 != 0).then_some(0xabc), asid: (opt & 2 != 0).then_some(7), global: opt & 4 != 0, final_only: opt & 8 != 0, nested: opt & 16 != 0 && nested_sup, noise: 0 };
                if opt & 16 != 0 && !nested_sup {
                    // documented assertion: nested flush unsupported => panic, nothing flushed
                    if opt == 16 {
                        cpu().clear_events();
                        let res = run_fault(|| { let b = inv.build().include_nested_translations(); b.flush() });
                        if res.is_ok() || !cpu().evs().is_empty() {
                            r.viol("C11|include_nested_translations|unsupported-not-rejected", "invlpgb nested-unsupported", "");
                        }
                    }
                    continue;
                }
                for &n in &lens {
                    if !a.thorough() && opt != 0 && opt != 31 && opt.count_ones() != 1 && n != 3 {
                        continue;
                    }
                    // positions: low, ending at the boundary, straddling it, starting at it, at the top
                    macro_rules! place {
                        ($S:ty) => {{
                            let s = <$S>::SIZE;
                            let half = 1u64 << 47;
                            let starts = [
                                from_pos(0x0000_1000_0000u64 & !(s - 1)),
                                from_pos(half - n.min(half / s - 1) * s),
                                from_pos(half - (n / 2).max(1).min(half / s - 1) * s),
                                from_pos(half),
                                from_pos((1u64 << 48) - (n + 1) * s),
                            ];
                            for st in starts {
                                invlpgb_case::<$S>(r, &inv, cm, st, n, o);
                            }
                        }};
                    }
                    place!(Size4KiB);
                    place!(Size2MiB);
                }
            }
            // builder call order: every option subset x every assignment of its options to before/after pages()
            for opt in 0..32u32 {
                if opt & 16 != 0 && !nested_sup {
                    continue;
                }
                let mut pre = opt;
                loop {
                    // pre runs through all submasks of opt
                    let o = Opts { pre, pcid: (opt & 1 != 0).then_some(0x5a5), asid: (opt & 2 != 0).then_some(3), global: opt & 4 != 0, final_only: opt & 8 != 0, nested: opt & 16 != 0, noise: 0 };
                    if pre != 0 {
                        invlpgb_case::<Size4KiB>(r, &inv, cm, 0x7000_0000, 5, o);
                        invlpgb_case::<Size2MiB>(r, &inv, cm, 0xffff_8000_0000_0000, 2, o);
                    }
                    if pre == 0 {
                        break;
                    }
                    pre = (pre - 1) & opt;
                }
            }
            // histories with calls that must not matter: rejected asid() calls before / after the options, options set twice
            for opt in [0u32, 1, 2, 3, 7, 31] {
                if opt & 16 != 0 && !nested_sup {
                    continue;
                }
                for noise in 1..8u8 {
                    for pre in [0u32, opt] {
                        let o = Opts { pre, pcid: (opt & 1 != 0).then_some(0x5a5), asid: (opt & 2 != 0).then_some(3), global: opt & 4 != 0, final_only: opt & 8 != 0, nested: opt & 16 != 0, noise };
                        invlpgb_case::<Size4KiB>(r, &inv, cm, 0x7000_0000, 5, o);
                        invlpgb_case::<Size2MiB>(r, &inv, cm, from_pos((1u64 << 47) - 0x20_0000), 2, o);
                    }
                }
            }
            // ranges of 2^32 pages and more (the remaining length no longer fits 32 bits), lower half, across the gap, upper half
            if cm == 65535 || (a.thorough() && cm >= 4095) {
                for (st, n) in [(0u64, 1u64 << 32), (0x1000, (1 << 32) + 5), (from_pos((1u64 << 47) - (1u64 << 43)), (1 << 32) + 70_000), (from_pos(1u64 << 47), (1 << 33) + 1)] {
                    invlpgb_huge::<Size4KiB>(r, &inv, cm, st, n, None, None);
                }
                invlpgb_huge::<Size4KiB>(r, &inv, cm, 0x7000, (1 << 32) + 1, Some(0x5a5), Some(3));
                invlpgb_huge::<Size2MiB>(r, &inv, cm, 0, (1 << 26) + 3, None, None);
            }
            if a.thorough() && cm >= 255 {
                invlpgb_case::<Size4KiB>(r, &inv, cm, (1u64 << 47) - 70_000 * 4096, 70_000 + 10, Opts { pre: 0, pcid: None, asid: None, global: false, final_only: false, nested: false, noise: 0 });
            }
        }
    }
    if a.shard == 0 {
        // unsupported processor -> None; not ring 0 -> panic
        cpu().set_cpuid(0x8000_0008, [0, 0, 0, 0]);
        cpu().sel[1] = 0x08;
        let x = run_stepped(|| Invlpgb::new().is_none());
        r.ev(true);
        if x != Ok(true) {
            r.viol("C11|Invlpgb::new|unsupported-processor-not-reported", "invlpgbnew unsupported", &format!("{:?}", x));
        }
        cpu().set_cpuid(0x8000_0008, [0, 1 << 3, 0, 5]);
        cpu().sel[1] = 0x33;
        let x = run_stepped(|| Invlpgb::new().is_some());
        r.ev(true);
        if x.is_ok() {
            r.viol("C11|Invlpgb::new|does-not-refuse-outside-ring-0", "invlpgbnew ring3", "");
        }
    }
}

// Call sites that keep a condition alive in the arithmetic flags across a flush: the counter is decremented, the flush runs, and
// only then the code branches on "counter reached zero" (the flush wrappers promise to leave the arithmetic flags alone).
#[inline(never)]
fn flag_site_expired(out: &mut [u64; 2]) {
    unsafe { core::ptr::write_volatile(&mut out[1], 0xaaaa) };
}
macro_rules! flag_site {
    ($name:ident, |$x:ident| $body:expr) => {
        #[inline(never)]
        fn $name(counter: &mut u64, $x: u64) -> u64 {
            *counter -= 1;
            let zero = *counter == 0;
            #[allow(unused_unsafe)]
            unsafe { $body };
            let mut out = [0u64; 2];
            if zero {
                unsafe { core::ptr::write_volatile(&mut out[0], $x) };
                flag_site_expired(&mut out);
            } else {
                unsafe { core::ptr::write_volatile(&mut out[1], 0x5555) };
            }
            unsafe { core::ptr::read_volatile(&out[1]) }
        }
    };
}
flag_site!(fl_flush, |x| tlb::flush(VirtAddr::new_truncate(x)));
flag_site!(fl_flush_all, |x| tlb::flush_all());
flag_site!(fl_tok, |x| MapperFlush::new(Page::<Size4KiB>::containing_address(VirtAddr::new_truncate(x))).flush());
flag_site!(fl_tok_all, |x| MapperFlushAll::new().flush_all());
flag_site!(fl_pcid, |x| tlb::flush_pcid(InvPcidCommand::Address(VirtAddr::new_truncate(x), Pcid::new((x >> 12) as u16 & 0xfff).unwrap())));
flag_site!(fl_pcid_all, |x| tlb::flush_pcid(InvPcidCommand::All));

fn flag_sites(r: &mut Rep) {
    let sites: &[(&str, fn(&mut u64, u64) -> u64)] = &[("tlb::flush", fl_flush), ("tlb::flush_all", fl_flush_all), ("MapperFlush::flush", fl_tok), ("MapperFlushAll::flush_all", fl_tok_all), ("flush_pcid(Address)", fl_pcid), ("flush_pcid(All)", fl_pcid_all)];
    for &(name, f) in sites {
        for x in [0u64, 0x7000, 0x0000_7fff_ffff_f000, 0xffff_8000_0000_0000] {
            for start in [1u64, 2, 3] {
                cpu().cr[3] = x & 0x000f_ffff_ffff_f000;
                use std::hint::black_box as bb;
                let mut counter = bb(start);
                let (rv, _) = one(true, || f(&mut counter, bb(x)));
                r.ev(true);
                let want = if start == 1 { 0xaaaa } else { 0x5555 };
                if rv != Ok(want) || counter != start - 1 {
                    r.viol(&format!("C11|{}|condition-computed-before-the-flush-is-wrong-after-it-(arithmetic-flags-not-preserved)", name), &format!("flushflags {} {:#x} {}", name, x, start), &format!("{:x?} expected {:#x}", rv, want));
                }
            }
        }
    }
}

pub fn run(a: &Args) {
    crate::simcpu::init();
    let mut r = Rep::new("C11", "flush-instructions");
    if let Some(c) = &a.replay {
        let t: Vec<&str> = c.split_whitespace().collect();
        let h = |s: &str| u64::from_str_radix(s.trim_start_matches("0x"), 16).unwrap();
        match t[0] {
            "flushall" => flush_all_case(&mut r, h(t[1]), t[2] == "true"),
            "pcid" => pcid_case(&mut r, t[1].parse().unwrap(), h(t[2]), t[3] == "true"),
            "flush" | "tokflush" | "tokpage" => flush_single(&mut r, a),
            "flushrepeat" => repetition(&mut r),
            "flushflags" => flag_sites(&mut r),
            _ => invlpgb_all(&mut r, &Args { prop: "C11".into(), tier: a.tier.clone(), shard: 0, nshards: 1, replay: None, extra: vec![] }),
        }
        r.emit();
        return;
    }
    if a.shard == 0 {
        guarded(&mut r, "C11|tlb::flush|unexpected-panic", || "flush".into(), |r| flush_single(r, a));
        guarded(&mut r, "C11|tlb::flush_all|unexpected-panic", || "flushall".into(), |r| flush_all(r, a));
    }
    if a.shard == 1 % a.nshards {
        guarded(&mut r, "C11|flush|unexpected-panic", || "flushrepeat".into(), |r| repetition(r));
        guarded(&mut r, "C11|flush|unexpected-panic", || "flushflags".into(), |r| flag_sites(r));
    }
    // all 4096 PCIDs x 4 kinds
    let addrs = canon();
    for p in 0..4096u16 {
        if p as usize % a.nshards != a.shard {
            continue;
        }
        let (ad, st) = (addrs[p as usize % addrs.len()], p % 64 == 0 || a.thorough());
        guarded(&mut r, "C11|flush_pcid|unexpected-panic", || format!("pcid {} {:#x} {}", p, ad, st), |r| pcid_case(r, p, ad, st));
    }
    guarded(&mut r, "C11|Invlpgb|unexpected-panic", || "invlpgb".into(), |r| invlpgb_all(r, a));
    r.states = r.evals;
    r.sample("pcid 4095 0xffff800000000000 false -> [Invpcid(0, 0xfff, 0xffff800000000000)]".into());
    r.sample("flushall 0x50a5 true -> [ReadCr(3, 0x50a5), WriteCr(3, 0x50a5)]".into());
    r.sample("invlpgb 4KiB max=3 start=0x7ffffffec000 n=20 (ends at the canonical boundary)".into());
    r.note(&format!("{} instructions single-stepped; INVLPGB count semantics: coverage checked under the crate's own reading (a request covers max(count,1) pages), the smaller of the two readings, so neither reading can produce a false alarm (O1)", cpu().steps));
    r.emit();
}
