//! The same operations evaluated by the compiler (const context) and at run time must agree: statics built with
//! `const fn` constructors are the normal way kernels create their GDT/IDT/TSS and constant addresses.
use crate::out::Rep;
use std::hint::black_box as bb;
use x86_64::structures::gdt::{Descriptor, GlobalDescriptorTable};
use x86_64::structures::idt::InterruptDescriptorTable;
use x86_64::structures::paging::{PageOffset, PageTable, PageTableIndex};
use x86_64::structures::tss::TaskStateSegment;
use x86_64::{align_down, align_up, PhysAddr, VirtAddr};

macro_rules! each_x {
    ($m:ident) => {
        $m!(0u64); $m!(0x7fff_ffff_ffffu64); $m!(0x8000_0000_0000u64); $m!(0xffff_8000_0000_0000u64); $m!(0xffff_7fff_ffff_ffffu64); $m!(u64::MAX);
        $m!(0x0123_4567_89ab_cdefu64); $m!(0x000f_ffff_ffff_ffffu64); $m!(0x0010_0000_0000_0000u64); $m!(0x9e37_79b9_7f4a_7c15u64);
        $m!(0x0000_0181_c0e0_9abcu64); $m!(0x0000_8000_0000_0001u64); $m!(0xffff_ffff_ffff_f000u64); $m!(0x0000_7fff_ffe0_0fffu64);
    };
}

pub fn addrs(r: &mut Rep, prop: &str) {
    macro_rules! one {
        ($x:expr) => {{
            const V: VirtAddr = VirtAddr::new_truncate($x);
            const P: PhysAddr = PhysAddr::new_truncate($x);
            const AD: u64 = align_down($x, 0x4000_0000);
            const AU: u64 = align_up($x & 0x7fff_ffff_ffff_ffff, 0x1000);
            const TV: bool = VirtAddr::try_new($x).is_ok();
            const TP: bool = PhysAddr::try_new($x).is_ok();
            const I: [PageTableIndex; 4] = [V.p4_index(), V.p3_index(), V.p2_index(), V.p1_index()];
            const O: PageOffset = V.page_offset();
            const NT: (PageTableIndex, PageOffset) = (PageTableIndex::new_truncate($x as u16), PageOffset::new_truncate($x as u16));
            r.ev(true);
            let x = bb($x);
            let v = VirtAddr::new_truncate(x);
            let p = PhysAddr::new_truncate(x);
            let same = V == v
                && P == p
                && AD == align_down(x, bb(0x4000_0000))
                && AU == align_up(x & 0x7fff_ffff_ffff_ffff, bb(0x1000))
                && TV == VirtAddr::try_new(x).is_ok()
                && TP == PhysAddr::try_new(x).is_ok()
                && I == [v.p4_index(), v.p3_index(), v.p2_index(), v.p1_index()]
                && O == v.page_offset()
                && NT == (PageTableIndex::new_truncate(x as u16), PageOffset::new_truncate(x as u16));
            if !same {
                r.viol(&format!("{}|const-evaluation-differs-from-run-time-evaluation", prop), &format!("constctx {:#x}", $x), "");
            }
        }};
    }
    each_x!(one);
}

static GDT: GlobalDescriptorTable = {
    let mut g = GlobalDescriptorTable::new();
    g.append(Descriptor::kernel_code_segment());
    g.append(Descriptor::user_data_segment());
    g.append(Descriptor::SystemSegment(0x0000_8900_0000_0067, 7));
    g
};
static GDT_RAW: GlobalDescriptorTable<4> = GlobalDescriptorTable::from_raw_entries(&[0, 0x00af_9b00_0000_ffff, 0x00cf_f300_0000_ffff]);

pub fn gdt(r: &mut Rep) {
    r.ev(true);
    let mut g = GlobalDescriptorTable::new();
    let s1 = g.append(bb(Descriptor::kernel_code_segment()));
    let s2 = g.append(bb(Descriptor::user_data_segment()));
    let s3 = g.append(bb(Descriptor::SystemSegment(0x0000_8900_0000_0067, 7)));
    let raw = |t: &[x86_64::structures::gdt::Entry]| -> Vec<u64> { t.iter().map(|e| e.raw()).collect() };
    if raw(GDT.entries()) != raw(g.entries()) || GDT.limit() != g.limit() || (s1.0, s2.0, s3.0) != (0x08, 0x13, 0x18) || raw(GDT.entries()).len() != 5 {
        r.viol("C14|const-built-static-table-differs-from-the-same-appends-at-run-time", "constctx gdt", &format!("{:x?} vs {:x?}", raw(GDT.entries()), raw(g.entries())));
    }
    let h = GlobalDescriptorTable::<4>::from_raw_entries(bb(&[0, 0x00af_9b00_0000_ffff, 0x00cf_f300_0000_ffff]));
    if raw(GDT_RAW.entries()) != raw(h.entries()) || GDT_RAW.limit() != 23 {
        r.viol("C14|const-from_raw_entries-differs-from-run-time", "constctx gdtraw", "");
    }
}

static IDT: InterruptDescriptorTable = InterruptDescriptorTable::new();
static TSS: TaskStateSegment = TaskStateSegment::new();
static PT: PageTable = PageTable::new();

pub fn tables(r: &mut Rep, prop: &str) {
    r.ev(true);
    let bytes = |p: *const u8, n: usize| -> Vec<u8> { unsafe { core::slice::from_raw_parts(p, n) }.to_vec() };
    match prop {
        "C12" => {
            let t = bb(InterruptDescriptorTable::new());
            if bytes(&IDT as *const _ as *const u8, 4096) != bytes(&t as *const _ as *const u8, 4096) {
                r.viol("C12|const-built-static-IDT-differs-from-new()-at-run-time", "constctx idt", "");
            }
        }
        "C15" => {
            let t = bb(TaskStateSegment::new());
            if bytes(&TSS as *const _ as *const u8, 0x68) != bytes(&t as *const _ as *const u8, 0x68) || TSS.iomap_base != 0x68 {
                r.viol("C15|const-built-static-TSS-differs-from-new()-at-run-time", "constctx tss", "");
            }
        }
        _ => {
            let t = bb(PageTable::new());
            if bytes(&PT as *const _ as *const u8, 4096) != bytes(&t as *const _ as *const u8, 4096) || !PT.is_empty() {
                r.viol("C08|const-built-static-PageTable-differs-from-new()-at-run-time", "constctx pt", "");
            }
        }
    }
}
