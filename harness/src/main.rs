#![feature(step_trait)]
#![feature(abi_x86_interrupt)]
#![allow(clippy::all)]
#![allow(dead_code, unused_features, unused_imports)]
//! vh — model-checking harness for rust-osdev/x86_64 (see /verif/DESIGN.md).
mod arch;
mod audit;
mod b64;
mod mp;
mod mpsearch;
mod out;
mod r1;
mod sig;
mod simphys;
mod simcpu;
mod constctx;
mod c03;
mod c04;
mod c05;
mod c06;
mod c07;
mod c08;
mod c11;
mod c12;
mod c12load;
mod c13;
mod c13iret;
mod c14;
mod c15;
mod c16;
mod c17;
mod c18;
mod c19;
mod c20;

pub struct Args {
    pub prop: String,
    pub tier: String,
    pub shard: usize,
    pub nshards: usize,
    pub replay: Option<String>,
    pub extra: Vec<String>,
}
impl Args {
    pub fn thorough(&self) -> bool {
        self.tier == "thorough"
    }
}

pub fn on_fatal_signal() {}

fn main() {
    // safety net: a worker that allocates without bound (an endless iterator collected by a check) dies by itself with an
    // allocation failure instead of exhausting the machine; every collection in the checks is bounded as well
    unsafe {
        let lim = libc::rlimit { rlim_cur: 24u64 << 30, rlim_max: 24u64 << 30 };
        libc::setrlimit(libc::RLIMIT_DATA, &lim);
    }
    let mut a = Args { prop: String::new(), tier: "quick".into(), shard: 0, nshards: 1, replay: None, extra: vec![] };
    let mut it = std::env::args().skip(1);
    while let Some(x) = it.next() {
        match x.as_str() {
            "--tier" => a.tier = it.next().unwrap(),
            "--shard" => {
                let s = it.next().unwrap();
                let (i, n) = s.split_once('/').unwrap();
                a.shard = i.parse().unwrap();
                a.nshards = n.parse().unwrap();
            }
            "--replay" => a.replay = Some(it.next().unwrap()),
            _ if a.prop.is_empty() => a.prop = x,
            _ => a.extra.push(x),
        }
    }
    out::silence_panics();
    if matches!(a.prop.as_str(), "C11F" | "C12" | "C13" | "C14" | "C16" | "C17" | "C18" | "C19") {
        // arm the trap-and-emulate CPU before any code of the check runs (an optimiser may move `pure` asm blocks)
        simcpu::init();
    }
    match a.prop.as_str() {
        "C03" => c03::run(&a),
        "C04" => c04::run(&a),
        "C05" => c05::run(&a),
        "C06" => c06::run(&a),
        "C07" => c07::run(&a),
        "C08" => c08::run(&a),
        "C11F" => c11::run(&a),
        "C12" => c12::run(&a),
        "C13" => c13::run(&a),
        "C14" => c14::run(&a),
        "C15" => c15::run(&a),
        "C16" => c16::run(&a),
        "C17" => c17::run(&a),
        "C18" => c18::run(&a),
        "C19" => c19::run(&a),
        "C20" => c20::run(&a),
        "MAPPER" => mpsearch::run(&a),
        "profile" => println!("{} overflow_checks={}", out::profile(), out::overflow_checks_on()),
        p => {
            eprintln!("unknown property {p}");
            std::process::exit(2);
        }
    }
}
