//! E2 SimPhys + E3 SoftMMU: simulated physical memory, access monitor, recursive window (see DESIGN §3).
//! Process-global, single-threaded. The SIGSEGV part lives in `fault()` and is called from sig.rs.
#![allow(static_mut_refs)]
use libc::{c_void, off_t};

pub const NF: usize = 48; // frames in the simulated window
pub const FSZ: usize = 4096;
pub const L4_FRAME: usize = 1;
pub const CUT_BASE: u64 = 0x4000_0000_0000; // fixed host address of the code-under-test view (64 TiB, p4 index 128)
pub const CUT_SPAN: u64 = 1 << 42; // addresses in [CUT_BASE, CUT_BASE+CUT_SPAN) belong to the linear/permuted view
pub const TRAP_BASE: u64 = 0x5000_0000_0000; // MappedPageTable: unknown frames -> TRAP_BASE + (frame number << 12) (PROT_NONE, never mapped)

#[derive(Clone, Copy, PartialEq, Eq, Debug)]
pub enum View {
    /// linear: host = CUT_BASE + (phys - PBASE)
    Linear,
    /// permuted: host = CUT_BASE + perm[frame]*4096
    Permuted,
    /// recursive window through slot R, demand-mapped
    Recursive(u16),
}

#[derive(Clone, Copy, Debug)]
pub struct Stray {
    pub addr: u64,    // faulting host address
    pub phys: u64,    // physical address it stands for (u64::MAX if unknown)
    pub frame: i32,   // frame index in the window or -1
    pub write: bool,
    pub rip: u64,
    pub kind: u8, // 0 = non-table frame inside the window, 1 = physical memory outside the window, 2 = not-present in recursive walk, 3 = wild address
}

pub struct Sim {
    pub fd: i32,
    pub oracle: *mut u8, // always-RW linear view of all frames
    pub pbase: u64,
    pub view: View,
    pub perm: [usize; NF],
    pub is_table: [bool; NF], // frames the code under test may touch during the current call
    pub prot_rw: [bool; NF],  // current protection of each frame in the CUT view (Linear/Permuted)
    pub active: bool,         // a call of the code under test is running
    pub strays: [Stray; 16],
    pub nstray: usize,
    pub win_pages: [u64; 64], // demand-mapped window pages (Recursive) and scratch pages (all views) to tear down after the call
    pub nwin: usize,
    pub win_writes: [(i32, u64); 64], // (frame, host addr) mapped writable through the window during this call
    pub nww: usize,
    pub win_reads: u32,
    pub fatal: bool,
    /// recursive-window pages touched during the last finished call (kept after end_call for the C20 oracle)
    pub last_win: [u64; 64],
    pub nlast: usize,
}

pub static mut SIM: Option<Sim> = None;
/// last physical frame address a MappedPageTable mapping was asked for that lies outside the window
pub static mut LAST_UNKNOWN_FRAME: u64 = 0;

/// recursive view: a non-recursive alias of the level-4 table
pub const L4_ALIAS: u64 = CUT_BASE + (L4_FRAME * FSZ) as u64;

pub fn sim() -> &'static mut Sim {
    unsafe { SIM.as_mut().expect("SimPhys not initialised") }
}

fn die(msg: &str) -> ! {
    eprintln!("[simphys] fatal: {}", msg);
    std::process::exit(2);
}

/// garbage pattern for free frames: four qwords in five look like a present, writable, user entry pointing to some frame of the window
pub fn poison_word(pbase: u64, frame: usize, slot: usize) -> u64 {
    // one word in five is zero (position depends on the frame, slot 0 included for some frames): stale memory is not uniformly
    // non-zero, so initialisation that stops at / skips zero words, or keys on the first word, leaves garbage behind
    if (slot + 3 * frame) % 5 == 2 {
        return 0;
    }
    let target = (frame * 7 + slot * 3 + 5) % NF;
    (pbase + (target as u64) * FSZ as u64) | 0x8000_0000_0000_0e67 & !0x80 // P|W|U|A|D + bits 9..11 + NX, never HUGE
}

impl Sim {
    pub fn frame_ptr(&self, f: usize) -> *mut u64 {
        unsafe { self.oracle.add(f * FSZ) as *mut u64 }
    }
    pub fn read(&self, f: usize, slot: usize) -> u64 {
        unsafe { *self.frame_ptr(f).add(slot) }
    }
    pub fn write(&self, f: usize, slot: usize, v: u64) {
        unsafe { *self.frame_ptr(f).add(slot) = v }
    }
    pub fn phys_of(&self, f: usize) -> u64 {
        self.pbase + (f * FSZ) as u64
    }
    pub fn frame_of_phys(&self, p: u64) -> Option<usize> {
        if p >= self.pbase && p < self.pbase + (NF * FSZ) as u64 {
            Some(((p - self.pbase) / FSZ as u64) as usize)
        } else {
            None
        }
    }
    pub fn poison(&self, f: usize) {
        for s in 0..512 {
            self.write(f, s, poison_word(self.pbase, f, s));
        }
    }
    pub fn zero(&self, f: usize) {
        unsafe { core::ptr::write_bytes(self.frame_ptr(f) as *mut u8, 0, FSZ) };
    }
    pub fn is_zero(&self, f: usize) -> bool {
        (0..512).all(|s| self.read(f, s) == 0)
    }
    /// host address at which the code under test sees frame f (Linear / Permuted)
    pub fn cut_addr(&self, f: usize) -> u64 {
        match self.view {
            View::Linear => CUT_BASE + (f * FSZ) as u64,
            View::Permuted => CUT_BASE + (self.perm[f] * FSZ) as u64,
            View::Recursive(_) => 0,
        }
    }
    /// host address of the level-4 table for the code under test
    pub fn l4_addr(&self) -> u64 {
        match self.view {
            View::Recursive(r) => {
                let r = r as u64;
                r << 39 | r << 30 | r << 21 | r << 12
            }
            _ => self.cut_addr(L4_FRAME),
        }
    }
    pub fn set_prot(&mut self, f: usize, rw: bool) {
        if matches!(self.view, View::Recursive(_)) {
            return;
        }
        if self.prot_rw[f] == rw {
            return;
        }
        let p = if rw { libc::PROT_READ | libc::PROT_WRITE } else { libc::PROT_NONE };
        if unsafe { libc::mprotect(self.cut_addr(f) as *mut c_void, FSZ, p) } != 0 {
            die("mprotect failed");
        }
        self.prot_rw[f] = rw;
    }
    /// mark frame f as page-table memory (accessible) or not
    pub fn set_table(&mut self, f: usize, t: bool) {
        self.is_table[f] = t;
        self.set_prot(f, t);
    }
    pub fn begin_call(&mut self) {
        self.nstray = 0;
        self.nww = 0;
        self.win_reads = 0;
        self.active = true;
    }
    pub fn end_call(&mut self) {
        self.active = false;
        self.last_win = self.win_pages;
        self.nlast = self.nwin;
        // tear down demand-mapped window pages and scratch pages ("empty TLB between calls")
        for i in 0..self.nwin {
            unsafe { libc::munmap(self.win_pages[i] as *mut c_void, FSZ) };
        }
        self.nwin = 0;
        // frames unprotected to satisfy a stray access get protected again
        if !matches!(self.view, View::Recursive(_)) {
            for f in 0..NF {
                if self.prot_rw[f] != self.is_table[f] {
                    let t = self.is_table[f];
                    self.set_prot(f, t);
                }
            }
        }
    }
    fn note_stray(&mut self, s: Stray) {
        if self.nstray < self.strays.len() {
            self.strays[self.nstray] = s;
            self.nstray += 1;
        }
    }
    fn remember_page(&mut self, a: u64) -> bool {
        if self.nwin >= self.win_pages.len() {
            return false;
        }
        self.win_pages[self.nwin] = a;
        self.nwin += 1;
        true
    }
    /// map one frame of the memfd at a host page
    unsafe fn map_frame_at(&mut self, host: u64, f: usize, write: bool) -> bool {
        let p = if write { libc::PROT_READ | libc::PROT_WRITE } else { libc::PROT_READ };
        let r = libc::mmap(host as *mut c_void, FSZ, p, libc::MAP_SHARED | libc::MAP_FIXED, self.fd, (f * FSZ) as off_t);
        r as u64 == host
    }
    unsafe fn map_scratch_at(&mut self, host: u64, zero: bool) -> bool {
        let r = libc::mmap(host as *mut c_void, FSZ, libc::PROT_READ | libc::PROT_WRITE, libc::MAP_PRIVATE | libc::MAP_ANONYMOUS | libc::MAP_FIXED_NOREPLACE, -1, 0);
        if r as u64 != host {
            return false;
        }
        if !zero {
            let p = host as *mut u64;
            for s in 0..512 {
                *p.add(s) = poison_word(self.pbase, 3, s);
            }
        }
        true
    }

    /// SIGSEGV entry. Returns true if the access was satisfied and execution can continue.
    pub unsafe fn fault(&mut self, addr: u64, write: bool, rip: u64) -> bool {
        if !self.active {
            return false;
        }
        let page = addr & !0xfff;
        match self.view {
            View::Linear | View::Permuted => {
                if addr >= CUT_BASE && addr < CUT_BASE + (NF * FSZ) as u64 {
                    // a frame of the window that is not page-table memory
                    let idx = ((addr - CUT_BASE) / FSZ as u64) as usize;
                    let f = match self.view {
                        View::Permuted => self.perm.iter().position(|&p| p == idx).unwrap(),
                        _ => idx,
                    };
                    if self.prot_rw[f] {
                        return false; // already accessible: not ours
                    }
                    self.note_stray(Stray { addr, phys: self.phys_of(f), frame: f as i32, write, rip, kind: 0 });
                    let ok = libc::mprotect(page as *mut c_void, FSZ, libc::PROT_READ | libc::PROT_WRITE) == 0;
                    self.prot_rw[f] = true;
                    return ok;
                }
                if addr >= CUT_BASE && addr < CUT_BASE + CUT_SPAN && self.view == View::Linear {
                    let phys = self.pbase + (addr - CUT_BASE);
                    self.note_stray(Stray { addr, phys, frame: -1, write, rip, kind: 1 });
                    return self.remember_page(page) && self.map_scratch_at(page, false);
                }
                if addr >= TRAP_BASE && addr < TRAP_BASE + FSZ as u64 {
                    // MappedPageTable asked for a frame outside the window: frame_to_pointer returned the trap page
                    let phys = LAST_UNKNOWN_FRAME;
                    self.note_stray(Stray { addr, phys, frame: -1, write, rip, kind: 1 });
                    return self.remember_page(page) && self.map_scratch_at(page, false);
                }
                self.wild(addr, write, rip, page)
            }
            View::Recursive(r) => {
                let r = r as u64;
                if addr >> 39 != r || addr >> 47 != 0 {
                    return self.wild(addr, write, rip, page);
                }
                // architectural 4-level walk of the simulated memory starting at CR3 = level-4 frame
                let idx = [(addr >> 39) & 0x1ff, (addr >> 30) & 0x1ff, (addr >> 21) & 0x1ff, (addr >> 12) & 0x1ff];
                let mut f = L4_FRAME;
                let mut phys: u64 = 0;
                let mut resolved = false;
                for lvl in 0..4 {
                    let e = self.read(f, idx[lvl] as usize);
                    if e & 1 == 0 {
                        self.note_stray(Stray { addr, phys: u64::MAX, frame: -1, write, rip, kind: 2 });
                        return self.remember_page(page) && self.map_scratch_at(page, true);
                    }
                    let a = e & 0x000f_ffff_ffff_f000;
                    if e & 0x80 != 0 && (lvl == 1 || lvl == 2) {
                        // large page met in the walk: the access goes to data inside the large frame
                        let span: u64 = if lvl == 1 { 1 << 30 } else { 1 << 21 };
                        phys = (a & !(span - 1)) | (addr & (span - 1) & !0xfff);
                        resolved = true;
                        break;
                    }
                    if lvl == 3 {
                        phys = a;
                        resolved = true;
                        break;
                    }
                    match self.frame_of_phys(a) {
                        Some(nf) => f = nf,
                        None => {
                            // the walk itself leaves the window: the CPU would read table entries from foreign memory
                            self.note_stray(Stray { addr, phys: a, frame: -1, write, rip, kind: 1 });
                            return self.remember_page(page) && self.map_scratch_at(page, false);
                        }
                    }
                }
                if !resolved {
                    return false;
                }
                match self.frame_of_phys(phys) {
                    Some(tf) => {
                        if !self.is_table[tf] {
                            self.note_stray(Stray { addr, phys, frame: tf as i32, write, rip, kind: 0 });
                        }
                        // map read-only first; upgrade on a write fault => per-call read/write sets
                        let already = self.win_pages[..self.nwin].contains(&page);
                        if write {
                            if self.nww < self.win_writes.len() {
                                self.win_writes[self.nww] = (tf as i32, page);
                                self.nww += 1;
                            }
                        } else {
                            self.win_reads += 1;
                        }
                        if !already && !self.remember_page(page) {
                            return false;
                        }
                        self.map_frame_at(page, tf, write)
                    }
                    None => {
                        self.note_stray(Stray { addr, phys, frame: -1, write, rip, kind: 1 });
                        if self.win_pages[..self.nwin].contains(&page) {
                            return false;
                        }
                        self.remember_page(page) && self.map_scratch_at(page, false)
                    }
                }
            }
        }
    }
    unsafe fn wild(&mut self, addr: u64, write: bool, rip: u64, page: u64) -> bool {
        // an address outside every window: record and back it with a scratch page if nothing is mapped there
        self.note_stray(Stray { addr, phys: u64::MAX, frame: -1, write, rip, kind: 3 });
        if page == 0 {
            self.fatal = true;
            return false;
        }
        self.remember_page(page) && self.map_scratch_at(page, false)
    }
}

/// Create the simulated memory. One call per process.
pub fn init(view: View, pbase: u64, perm_seed: u64) {
    unsafe {
        let fd = libc::memfd_create(b"simphys\0".as_ptr() as *const libc::c_char, 0);
        if fd < 0 || libc::ftruncate(fd, (NF * FSZ) as off_t) != 0 {
            die("memfd");
        }
        let oracle = libc::mmap(core::ptr::null_mut(), NF * FSZ, libc::PROT_READ | libc::PROT_WRITE, libc::MAP_SHARED, fd, 0);
        if oracle == libc::MAP_FAILED {
            die("oracle mmap");
        }
        // a non-linear frame permutation (multiplicative, NF=48 and 37 are coprime) for the MappedPageTable configuration
        let mut perm = [0usize; NF];
        for i in 0..NF {
            perm[i] = if view == View::Permuted { (i * 37 + 11 + perm_seed as usize) % NF } else { i };
        }
        let mut s = Sim {
            fd, oracle: oracle as *mut u8, pbase, view, perm, is_table: [false; NF], prot_rw: [false; NF], active: false,
            strays: [Stray { addr: 0, phys: 0, frame: 0, write: false, rip: 0, kind: 0 }; 16], nstray: 0,
            win_pages: [0; 64], nwin: 0, win_writes: [(0, 0); 64], nww: 0, win_reads: 0, fatal: false, last_win: [0; 64], nlast: 0,
        };
        match view {
            View::Linear | View::Permuted => {
                for f in 0..NF {
                    let host = CUT_BASE + (s.perm[f] * FSZ) as u64;
                    let r = libc::mmap(host as *mut c_void, FSZ, libc::PROT_NONE, libc::MAP_SHARED | libc::MAP_FIXED_NOREPLACE, fd, (f * FSZ) as off_t);
                    if r as u64 != host {
                        die("CUT view mmap (fixed address busy)");
                    }
                }
            }
            View::Recursive(_) => {
                let host = s.l4_addr();
                let r = libc::mmap(host as *mut c_void, FSZ, libc::PROT_READ | libc::PROT_WRITE, libc::MAP_SHARED | libc::MAP_FIXED_NOREPLACE, fd, (L4_FRAME * FSZ) as off_t);
                if r as u64 != host {
                    die("recursive level-4 mmap (fixed address busy)");
                }
                // a second, non-recursive alias of the level-4 table (e.g. its physical-memory-offset address)
                let r = libc::mmap(L4_ALIAS as *mut c_void, FSZ, libc::PROT_READ | libc::PROT_WRITE, libc::MAP_SHARED | libc::MAP_FIXED_NOREPLACE, fd, (L4_FRAME * FSZ) as off_t);
                if r as u64 != L4_ALIAS {
                    die("level-4 alias mmap (fixed address busy)");
                }
            }
        }
        for f in 0..NF {
            s.poison(f);
        }
        SIM = Some(s);
    }
}
