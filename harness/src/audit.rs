//! Instruction audit (step mode): a function that consists of one wrapper call is single-stepped and every instruction it
//! executes between its entry and its first `ret` is classified. Apart from the instructions the emulator handled (the
//! wrapper's own privileged instruction) only register-to-register moves, zero-extensions, stack-frame bookkeeping and
//! nops may appear: nothing that writes flags, memory or another register behind the compiler's back.
use crate::out::Rep;
use crate::simcpu::{cpu, run_stepped};

pub fn classify(b: &[u8; 4]) -> &'static str {
    let mut i = 0;
    while i < 3 && (b[i] == 0x66 || (0x40..=0x4f).contains(&b[i])) {
        i += 1;
    }
    match b[i] {
        0x89 | 0x8b | 0x88 | 0x8a if i + 1 < 4 && b[i + 1] >= 0xc0 => "mov-reg-reg",
        0x0f if i + 2 < 4 && (b[i + 1] == 0xb6 || b[i + 1] == 0xb7) && b[i + 2] >= 0xc0 => "movzx-reg-reg",
        0x0f if i + 1 < 4 && b[i + 1] == 0x1f => "nop",
        0xc3 => "ret",
        0x50..=0x57 => "push-reg", // stack alignment / frame bookkeeping emitted by the compiler around an asm block that uses the stack
        0x5d | 0x90 => "frame/nop",
        0x58..=0x5f => "pop-reg", // the second half of `pushfq; pop r` (an unbalanced pop cannot go unnoticed)
        0xf3 if b[1] == 0x0f && b[2] == 0x1e => "endbr",
        _ => "other",
    }
}

/// `addr` = entry of the audited function; `want_events` = number of emulated (privileged) instructions it must execute
pub fn audit_tiny(r: &mut Rep, tag: &str, name: &str, addr: u64, want_events: usize, f: impl FnOnce()) {
    let c = cpu();
    c.trace_lo = addr;
    c.trace_hi = addr + 96;
    c.nitrace = 0;
    c.clear_events();
    let _ = run_stepped(f);
    c.trace_lo = 0;
    c.trace_hi = 0;
    r.ev(true);
    let tr: Vec<(u64, [u8; 4])> = c.itrace[..c.nitrace].to_vec();
    let emulated: Vec<u64> = c.events[..c.nev].iter().map(|e| e.rip).collect();
    let body: Vec<&(u64, [u8; 4])> = tr.iter().take_while(|(_, b)| classify(b) != "ret").collect();
    // unoptimised builds call the (not inlined) crate function: its instructions lie outside the window, nothing to audit here
    if body.iter().any(|(_, b)| matches!(b[0], 0xe8 | 0xe9 | 0xeb | 0xff)) {
        return;
    }
    let inside = body.iter().filter(|(a, _)| emulated.contains(a)).count();
    let other: Vec<String> = body.iter().filter(|(a, b)| !emulated.contains(a) && classify(b) == "other").map(|(a, b)| format!("{:#x}: {:02x?}", a, b)).collect();
    if tr.is_empty() || inside != want_events || !other.is_empty() {
        r.viol(
            &format!("{}|{}|wrapper-executes-other-instructions-than-its-own-and-register-moves", tag, name),
            &format!("audit {}", name),
            &format!("{} privileged instruction(s) inside (expected {}); other: {:?}; trace {:02x?}", inside, want_events, other, tr.iter().map(|(_, b)| b).collect::<Vec<_>>()),
        );
    }
}
