//! C12 — IDT entries sit where the CPU looks and encode the architectural gate format.
use crate::arch::*;
use crate::b64::*;
use crate::out::*;
use crate::Args;
use core::ops::Bound;
use std::collections::{BTreeMap, VecDeque};
use x86_64::registers::segmentation::SegmentSelector;
use x86_64::structures::idt::{Entry, EntryOptions, HandlerFunc, InterruptDescriptorTable, InterruptStackFrame};
use x86_64::{PrivilegeLevel, VirtAddr};

/// R4: decoded 64-bit interrupt/trap gate (SDM vol.3 fig. 6-8)
#[derive(Debug, Clone, Copy, PartialEq, Eq)]
pub struct Gate {
    pub offset: u64,
    pub selector: u16,
    pub ist: u8,
    pub zero1: u8, // bits 3..7 of byte 4
    pub typ: u8,   // bits 8..11
    pub zero2: u8, // bit 12
    pub dpl: u8,
    pub p: bool,
    pub reserved: u32,
}
pub fn decode_gate(b: &[u8; 16]) -> Gate {
    let w = |i: usize| u16::from_le_bytes([b[i], b[i + 1]]) as u64;
    let d = |i: usize| u32::from_le_bytes([b[i], b[i + 1], b[i + 2], b[i + 3]]) as u64;
    let opt = w(4);
    Gate {
        offset: w(0) | (w(6) << 16) | (d(8) << 32),
        selector: w(2) as u16,
        ist: (opt & 7) as u8,
        zero1: ((opt >> 3) & 0x1f) as u8,
        typ: ((opt >> 8) & 0xf) as u8,
        zero2: ((opt >> 12) & 1) as u8,
        dpl: ((opt >> 13) & 3) as u8,
        p: (opt >> 15) & 1 == 1,
        reserved: d(12) as u32,
    }
}
pub fn gate_bytes<F>(e: &Entry<F>) -> [u8; 16] {
    assert_eq!(core::mem::size_of::<Entry<F>>(), 16);
    unsafe { *(e as *const Entry<F> as *const [u8; 16]) }
}
pub fn table_bytes(t: &InterruptDescriptorTable) -> Vec<u8> {
    unsafe { core::slice::from_raw_parts(t as *const _ as *const u8, core::mem::size_of::<InterruptDescriptorTable>()).to_vec() }
}
pub fn native_cs() -> u16 {
    let cs: u16;
    unsafe { core::arch::asm!("mov {0:x}, cs", out(reg) cs, options(nomem, nostack, preserves_flags)) };
    cs
}

macro_rules! off {
    ($idt:expr, $f:ident) => {
        (core::ptr::addr_of!($idt.$f) as usize) - (&$idt as *const InterruptDescriptorTable as usize)
    };
}

/// the named exception fields sit at 16 x their architectural vector number (also the C19 clause "exception-vector numbers")
pub fn named_field_placement(r: &mut Rep, tag: &str) {
    let idt = InterruptDescriptorTable::new();
    let base = &idt as *const InterruptDescriptorTable as usize;
    let named: [(&str, usize, u8); 23] = [
        ("divide_error", off!(idt, divide_error), 0), ("debug", off!(idt, debug), 1), ("non_maskable_interrupt", off!(idt, non_maskable_interrupt), 2),
        ("breakpoint", off!(idt, breakpoint), 3), ("overflow", off!(idt, overflow), 4), ("bound_range_exceeded", off!(idt, bound_range_exceeded), 5),
        ("invalid_opcode", off!(idt, invalid_opcode), 6), ("device_not_available", off!(idt, device_not_available), 7), ("double_fault", off!(idt, double_fault), 8),
        ("invalid_tss", off!(idt, invalid_tss), 10), ("segment_not_present", off!(idt, segment_not_present), 11), ("stack_segment_fault", off!(idt, stack_segment_fault), 12),
        ("general_protection_fault", off!(idt, general_protection_fault), 13), ("page_fault", off!(idt, page_fault), 14), ("x87_floating_point", off!(idt, x87_floating_point), 16),
        ("alignment_check", off!(idt, alignment_check), 17), ("machine_check", off!(idt, machine_check), 18), ("simd_floating_point", off!(idt, simd_floating_point), 19),
        ("virtualization", off!(idt, virtualization), 20), ("cp_protection_exception", off!(idt, cp_protection_exception), 21),
        ("hv_injection_exception", off!(idt, hv_injection_exception), 28), ("vmm_communication_exception", off!(idt, vmm_communication_exception), 29),
        ("security_exception", off!(idt, security_exception), 30),
    ];
    let _ = base;
    for (n, o, v) in named.iter() {
        r.ev(true);
        if *o != 16 * *v as usize {
            r.viol(&format!("{}|named-field|{}|not-at-its-vector", tag, n), &format!("field {}", n), &format!("offset {} expected {}", o, 16 * *v as usize));
        }
    }
}

fn gh_place(_f: InterruptStackFrame, _i: u8, _e: Option<u64>) {}
/// reached through set_general_handler! for exactly one vector: the gate that changes is the one at 16v
pub fn general_handler_placement(r: &mut Rep) {
    for v in 0..=255u8 {
        r.ev(true);
        let mut t = InterruptDescriptorTable::new();
        let before = table_bytes(&t);
        if catch(|| { x86_64::set_general_handler!(&mut t, gh_place, v..=v); }).is_err() {
            r.viol("C12|set_general_handler|panics-for-a-single-vector", &format!("ghplace {}", v), "");
            continue;
        }
        let after = table_bytes(&t);
        let changed: Vec<usize> = (0..256).filter(|&k| after[16 * k..16 * k + 16] != before[16 * k..16 * k + 16]).collect();
        let want: Vec<usize> = if RESERVED_VECTORS.contains(&v) { vec![] } else { vec![v as usize] };
        if changed != want {
            r.viol("C12|set_general_handler|vector-v-is-not-installed-in-the-descriptor-at-16v", &format!("ghplace {}", v), &format!("descriptors changed: {:?}", changed));
        }
    }
}

fn placement(r: &mut Rep) {
    let idt = InterruptDescriptorTable::new();
    let base = &idt as *const InterruptDescriptorTable as usize;
    if core::mem::size_of::<InterruptDescriptorTable>() != 4096 || core::mem::align_of::<InterruptDescriptorTable>() < 16 {
        r.viol("C12|InterruptDescriptorTable|size-or-alignment-wrong", "idt layout", "");
    }
    // named fields (R4 name -> vector, SDM table 6-1 / APM)
    let named: [(&str, usize, u8); 24] = [
        ("divide_error", off!(idt, divide_error), 0), ("debug", off!(idt, debug), 1), ("non_maskable_interrupt", off!(idt, non_maskable_interrupt), 2),
        ("breakpoint", off!(idt, breakpoint), 3), ("overflow", off!(idt, overflow), 4), ("bound_range_exceeded", off!(idt, bound_range_exceeded), 5),
        ("invalid_opcode", off!(idt, invalid_opcode), 6), ("device_not_available", off!(idt, device_not_available), 7), ("double_fault", off!(idt, double_fault), 8),
        ("invalid_tss", off!(idt, invalid_tss), 10), ("segment_not_present", off!(idt, segment_not_present), 11), ("stack_segment_fault", off!(idt, stack_segment_fault), 12),
        ("general_protection_fault", off!(idt, general_protection_fault), 13), ("page_fault", off!(idt, page_fault), 14), ("x87_floating_point", off!(idt, x87_floating_point), 16),
        ("alignment_check", off!(idt, alignment_check), 17), ("machine_check", off!(idt, machine_check), 18), ("simd_floating_point", off!(idt, simd_floating_point), 19),
        ("virtualization", off!(idt, virtualization), 20), ("cp_protection_exception", off!(idt, cp_protection_exception), 21),
        ("hv_injection_exception", off!(idt, hv_injection_exception), 28), ("vmm_communication_exception", off!(idt, vmm_communication_exception), 29),
        ("security_exception", off!(idt, security_exception), 30), ("(end)", 4096, 0),
    ];
    let _ = named;
    named_field_placement(r, "C12");
    general_handler_placement(r);
    // Index<u8>
    let refuse: Vec<u8> = ERR_VECTORS.iter().chain(RESERVED_VECTORS.iter()).copied().chain([18u8]).collect();
    let mut idtm = InterruptDescriptorTable::new();
    let basem = &idtm as *const InterruptDescriptorTable as usize;
    for v in 0..=255u8 {
        r.ev(true);
        let g = catch(|| &idt[v] as *const Entry<HandlerFunc> as usize);
        let gm = catch(|| &mut idtm[v] as *mut Entry<HandlerFunc> as usize);
        let should_refuse = refuse.contains(&v);
        match (g, gm) {
            (Ok(p), Ok(pm)) => {
                if should_refuse {
                    r.viol("C12|Index<u8>|accepts-vector-it-must-refuse", &format!("index {}", v), "");
                } else if p - base != 16 * v as usize || pm - basem != 16 * v as usize {
                    r.viol("C12|Index<u8>|entry-not-at-16v", &format!("index {}", v), &format!("{} {}", p - base, pm - basem));
                }
            }
            (Err(()), Err(())) => {
                if !should_refuse {
                    r.viol("C12|Index<u8>|refuses-ordinary-vector", &format!("index {}", v), "");
                }
            }
            _ => r.viol("C12|Index<u8>|index-and-index_mut-disagree", &format!("index {}", v), ""),
        }
    }
}

/// expected (lower, upper) for a pair of bounds; None = must panic
fn norm(lo: Bound<u8>, hi: Bound<u8>) -> Option<(usize, usize)> {
    let l = match lo {
        Bound::Included(s) => s as usize,
        Bound::Excluded(s) => s as usize + 1,
        Bound::Unbounded => 0,
    };
    let u = match hi {
        Bound::Included(e) => e as usize + 1,
        Bound::Excluded(e) => e as usize,
        Bound::Unbounded => 256,
    };
    if l < 32 || l > u || u > 256 {
        None
    } else {
        Some((l, u))
    }
}

fn one_range(r: &mut Rep, idt: &InterruptDescriptorTable, idtm: &mut InterruptDescriptorTable, form: &str, exp: Option<(usize, usize)>, a: u8, b: u8,
             f: &dyn Fn(&InterruptDescriptorTable) -> (usize, usize), fm: &dyn Fn(&mut InterruptDescriptorTable) -> (usize, usize)) {
    r.ev(exp.is_some());
    let base = idt as *const _ as usize;
    let basem = idtm as *const _ as usize;
    let g = catch(|| f(idt));
    let gm = catch(|| fm(idtm));
    let case = format!("range {} {} {}", form, a, b);
    for (which, got, bs) in [("index", g, base), ("index_mut", gm, basem)] {
        match (got, exp) {
            (Ok((p, len)), Some((l, u))) => {
                if p - bs != 16 * l || len != u - l {
                    r.viol(&format!("C12|range-access|{}|wrong-slice", form), &case, &format!("{} offset {} len {} expected {} {}", which, p - bs, len, 16 * l, u - l));
                }
            }
            (Err(()), None) => {}
            (Ok(_), None) => r.viol(&format!("C12|range-access|{}|accepts-range-it-must-refuse", form), &case, which),
            (Err(()), Some(_)) => r.viol(&format!("C12|range-access|{}|refuses-valid-range", form), &case, which),
        }
    }
}

fn ranges(r: &mut Rep, ar: &Args) {
    let idt = InterruptDescriptorTable::new();
    let mut idtm = InterruptDescriptorTable::new();
    let sl = |s: &[Entry<HandlerFunc>]| (s.as_ptr() as usize, s.len());
    let mut n = 0usize;
    for a in 0..=255u8 {
        n += 1;
        if n % ar.nshards != ar.shard {
            continue;
        }
        for b in 0..=255u8 {
            use Bound::*;
            macro_rules! form {
                ($name:expr, $exp:expr, $e:expr) => {
                    one_range(r, &idt, &mut idtm, $name, $exp, a, b, &|t| sl(&t[$e]), &|t| { let s = &mut t[$e]; (s.as_ptr() as usize, s.len()) });
                    one_range(r, &idt, &mut idtm, concat!($name, "/slice"), $exp, a, b, &|t| sl(t.slice($e)), &|t| { let s = t.slice_mut($e); (s.as_ptr() as usize, s.len()) });
                };
            }
            form!("a..b", norm(Included(a), Excluded(b)), a..b);
            form!("&a..&b", norm(Included(a), Excluded(b)), &a..&b);
            form!("a..=b", norm(Included(a), Included(b)), a..=b);
            form!("&a..=&b", norm(Included(a), Included(b)), &a..=&b);
            for (ln, lo, lor) in [("I", Included(a), Included(&a)), ("E", Excluded(a), Excluded(&a)), ("U", Unbounded, Unbounded)] {
                for (hn, hi, hir) in [("I", Included(b), Included(&b)), ("E", Excluded(b), Excluded(&b)), ("U", Unbounded, Unbounded)] {
                    let nm = format!("(Bound{},Bound{})", ln, hn);
                    let nmr = format!("(Bound&{},Bound&{})", ln, hn);
                    one_range(r, &idt, &mut idtm, &nm, norm(lo, hi), a, b, &|t| sl(&t[(lo, hi)]), &|t| { let s = &mut t[(lo, hi)]; (s.as_ptr() as usize, s.len()) });
                    one_range(r, &idt, &mut idtm, &nmr, norm(lo, hi), a, b, &|t| sl(&t[(lor, hir)]), &|t| { let s = &mut t[(lor, hir)]; (s.as_ptr() as usize, s.len()) });
                }
            }
            if b == 0 {
                form!("a..", norm(Included(a), Unbounded), a..);
                form!("&a..", norm(Included(a), Unbounded), &a..);
                form!("..a", norm(Unbounded, Excluded(a)), ..a);
                form!("..&a", norm(Unbounded, Excluded(a)), ..&a);
                form!("..=a", norm(Unbounded, Included(a)), ..=a);
                form!("..=&a", norm(Unbounded, Included(a)), ..=&a);
                form!("..", norm(Unbounded, Unbounded), ..);
            }
        }
    }
}

extern "x86-interrupt" fn dummy_handler(_f: InterruptStackFrame) {}

pub fn encoding_case(r: &mut Rep, addr: u64) {
    r.ev(addr >> 16 != 0);
    let cs = native_cs();
    let mut e: Entry<HandlerFunc> = Entry::missing();
    unsafe { e.set_handler_addr(VirtAddr::new(addr)) };
    let g = decode_gate(&gate_bytes(&e));
    let exp = Gate { offset: addr, selector: cs, ist: 0, zero1: 0, typ: 0xE, zero2: 0, dpl: 0, p: true, reserved: 0 };
    let case = format!("gateaddr {:#x}", addr);
    if g != exp {
        r.viol("C12|set_handler_addr|gate-encoding-wrong", &case, &format!("{:x?} expected {:x?}", g, exp));
    }
    if e.handler_addr().as_u64() != addr {
        r.viol("C12|handler_addr|does-not-read-back", &case, &format!("{:#x}", e.handler_addr().as_u64()));
    }
}

#[derive(Clone, Copy, Debug, PartialEq, Eq)]
pub enum Opt {
    Present(bool),
    DisableInt(bool),
    Dpl(u8),
    Stack(u16),
    Cs(u16),
}
pub const HADDR: u64 = 0xffff_8abc_1234_5678;

fn apply(o: &mut EntryOptions, a: Opt) {
    match a {
        Opt::Present(b) => {
            o.set_present(b);
        }
        Opt::DisableInt(b) => {
            o.disable_interrupts(b);
        }
        Opt::Dpl(d) => {
            o.set_privilege_level(PrivilegeLevel::from_u16(d as u16));
        }
        Opt::Stack(i) => unsafe {
            o.set_stack_index(i);
        },
        Opt::Cs(s) => unsafe {
            o.set_code_selector(SegmentSelector(s));
        },
    }
}
/// run a whole setter history on a fresh gate; None = some setter panicked
pub fn run_hist(h: &[Opt]) -> Option<[u8; 16]> {
    run_hist_addr(h).map(|(b, _)| b)
}
/// gate bytes and what handler_addr() reads back after the history
pub fn run_hist_addr(h: &[Opt]) -> Option<([u8; 16], u64)> {
    catch(|| {
        let mut e: Entry<HandlerFunc> = Entry::missing();
        let o = unsafe { e.set_handler_addr(VirtAddr::new(HADDR)) };
        for &a in h {
            apply(o, a);
        }
        (gate_bytes(&e), e.handler_addr().as_u64())
    })
    .ok()
}

pub const HADDR2: u64 = 0x0000_7654_3210_f000;
/// history, then set_handler_addr again: the gate must be the default gate for the new address whatever it held before
pub fn run_hist_then_reset(h: &[Opt]) -> Option<([u8; 16], u64)> {
    run_hist_then_reset_mode(h, 0)
}
/// mode 0: a different address through set_handler_addr; 1: the SAME address again; 2: set_handler_fn, history, the same
/// handler function again; 3: set_handler_addr, history, set_handler_fn
pub fn run_hist_then_reset_mode(h: &[Opt], mode: u8) -> Option<([u8; 16], u64)> {
    catch(|| {
        let mut e: Entry<HandlerFunc> = Entry::missing();
        {
            let o = if mode == 2 { e.set_handler_fn(dummy_handler) } else { unsafe { e.set_handler_addr(VirtAddr::new(HADDR)) } };
            for &a in h {
                apply(o, a);
            }
        }
        match mode {
            0 => { unsafe { e.set_handler_addr(VirtAddr::new(HADDR2)) }; }
            1 => { unsafe { e.set_handler_addr(VirtAddr::new(HADDR)) }; }
            _ => { e.set_handler_fn(dummy_handler); }
        }
        (gate_bytes(&e), e.handler_addr().as_u64())
    })
    .ok()
}

fn expected_after(g: Gate, a: Opt) -> Gate {
    let mut e = g;
    match a {
        Opt::Present(b) => e.p = b,
        Opt::DisableInt(b) => e.typ = if b { 0xE } else { 0xF }, // interrupt gate clears IF, trap gate does not
        Opt::Dpl(d) => e.dpl = d,
        Opt::Stack(i) => e.ist = (i + 1) as u8,
        Opt::Cs(s) => e.selector = s,
    }
    e
}

fn options_search(r: &mut Rep) {
    let mut acts: Vec<Opt> = vec![Opt::Present(true), Opt::Present(false), Opt::DisableInt(true), Opt::DisableInt(false)];
    for d in 0..4 {
        acts.push(Opt::Dpl(d));
    }
    for i in 0..=6 {
        acts.push(Opt::Stack(i));
    }
    for s in [0x33u16, 0x08, 0x10, 0xfff8] {
        acts.push(Opt::Cs(s));
    }
    let init = run_hist(&[]).unwrap();
    let mut seen: BTreeMap<[u8; 16], Vec<Opt>> = BTreeMap::new();
    seen.insert(init, vec![]);
    let mut q: VecDeque<[u8; 16]> = VecDeque::new();
    q.push_back(init);
    while let Some(s) = q.pop_front() {
        let hist = seen[&s].clone();
        r.max_depth = r.max_depth.max(hist.len() as u64);
        let g = decode_gate(&s);
        for &a in &acts {
            r.transitions += 1;
            let mut h2 = hist.clone();
            h2.push(a);
            let case = format!("gateopts {:?}", h2);
            match run_hist_addr(&h2) {
                None => r.viol("C12|option-setter|panics-on-valid-argument", &case, ""),
                Some((b, ha)) => {
                    if ha != HADDR {
                        r.viol("C12|handler_addr|does-not-read-back-unchanged-after-an-option-setter", &case, &format!("{:#x} expected {:#x}", ha, HADDR));
                    }
                    let got = decode_gate(&b);
                    let exp = expected_after(g, a);
                    if got != exp {
                        let what = match a { Opt::Present(_) => "set_present", Opt::DisableInt(_) => "disable_interrupts", Opt::Dpl(_) => "set_privilege_level", Opt::Stack(_) => "set_stack_index", Opt::Cs(_) => "set_code_selector" };
                        r.viol(&format!("C12|{}|changes-wrong-field-or-value", what), &case, &format!("{:x?} expected {:x?}", got, exp));
                    }
                    if !seen.contains_key(&b) {
                        seen.insert(b, h2);
                        q.push_back(b);
                    }
                }
            }
        }
    }
    // from every reachable gate state: giving the entry a handler address again yields the default gate
    let cs = native_cs();
    for (_, hist) in seen.iter() {
        r.transitions += 1;
        let case = format!("gatereset {:?}", hist);
        for mode in 0..4u8 {
            let want = match mode { 0 => HADDR2, 1 => HADDR, _ => dummy_handler as usize as u64 };
            match run_hist_then_reset_mode(hist, mode) {
                None => r.viol("C12|set_handler_addr|panics-on-a-configured-entry", &case, ""),
                Some((b, ha)) => {
                    let g = decode_gate(&b);
                    let exp = Gate { offset: want, selector: cs, ist: 0, zero1: 0, typ: 0xE, zero2: 0, dpl: 0, p: true, reserved: 0 };
                    if g != exp || ha != want {
                        let what = ["set_handler_addr", "set_handler_addr(same address)", "set_handler_fn(same handler)", "set_handler_fn"][mode as usize];
                        r.viol(&format!("C12|{}|does-not-reset-options-of-a-previously-configured-entry", what), &case, &format!("{:x?} expected {:x?}", g, exp));
                    }
                }
            }
        }
    }
    r.states += seen.len() as u64;
    // out-of-range stack indices must be refused (7 would encode IST 8 which does not exist)
    for i in [7u16, 8, 15, 0xffff] {
        r.ev(true);
        if i == 0xffff {
            continue; // index+1 overflow: outcome not specified beyond 'refuse'; covered by 7,8,15
        }
        if run_hist(&[Opt::Stack(i)]).is_some() {
            r.viol("C12|set_stack_index|accepts-index-above-6", &format!("gateopts [Stack({})]", i), "");
        }
    }
}

fn missing_reset(r: &mut Rep) {
    let chk = |r: &mut Rep, t: &InterruptDescriptorTable, what: &str| {
        let b = table_bytes(t);
        for v in 0..256usize {
            r.ev(true);
            let g = decode_gate(b[16 * v..16 * v + 16].try_into().unwrap());
            let exp = Gate { offset: 0, selector: 0, ist: 0, zero1: 0, typ: 0xE, zero2: 0, dpl: 0, p: false, reserved: 0 };
            if g != exp {
                r.viol(&format!("C12|{}|entry-not-a-clean-non-present-gate", what), &format!("idt {} {}", what, v), &format!("{:x?}", g));
            }
        }
    };
    let mut t = InterruptDescriptorTable::new();
    chk(r, &t, "new");
    let d = InterruptDescriptorTable::default();
    chk(r, &d, "default");
    // fill everything reachable, then reset
    t.divide_error.set_handler_fn(dummy_handler);
    for v in 32..=255u8 {
        t[v].set_handler_fn(dummy_handler);
    }
    unsafe { t.page_fault.set_handler_addr(VirtAddr::new(0x1234_5000)) };
    unsafe { t.double_fault.set_handler_addr(VirtAddr::new(0x1234_5000)) };
    t.reset();
    chk(r, &t, "reset");
    // reset() of a table that lives in recycled memory (every bit pattern is a valid table): all 256 gates, including the
    // reserved vectors no API path can write, come out as clean non-present gates
    for fill in [0xffu8, 0xa5, 0x80, 0x01] {
        let mut raw: Box<InterruptDescriptorTable> = Box::new(InterruptDescriptorTable::new());
        unsafe { core::ptr::write_bytes(&mut *raw as *mut InterruptDescriptorTable as *mut u8, fill, 4096) };
        raw.reset();
        chk(r, &raw, "reset(over recycled memory)");
    }
    let m: Entry<HandlerFunc> = Entry::missing();
    if decode_gate(&gate_bytes(&m)).p || m.handler_addr().as_u64() != 0 {
        r.viol("C12|Entry::missing|present-or-nonzero", "missing", "");
    }
    // set_handler_fn
    let mut e: Entry<HandlerFunc> = Entry::missing();
    e.set_handler_fn(dummy_handler);
    let g = decode_gate(&gate_bytes(&e));
    let fa = dummy_handler as extern "x86-interrupt" fn(InterruptStackFrame) as usize as u64;
    if g.offset != fa || !g.p || g.typ != 0xE || g.selector != native_cs() || e.handler_addr().as_u64() != fa {
        r.viol("C12|set_handler_fn|gate-encoding-wrong", "handlerfn", &format!("{:x?}", g));
    }
}

pub fn run(a: &Args) {
    let mut r = Rep::new("C12", "idt");
    if let Some(c) = &a.replay {
        let t: Vec<&str> = c.split_whitespace().collect();
        match t[0] {
            "gateaddr" => encoding_case(&mut r, u64::from_str_radix(t[1].trim_start_matches("0x"), 16).unwrap()),
            "gateopts" => options_search(&mut r),
            "range" => ranges(&mut r, &Args { prop: "C12".into(), tier: "quick".into(), shard: 0, nshards: 1, replay: None, extra: vec![] }),
            "load" => crate::c12load::run(&mut r),
            _ => {
                placement(&mut r);
                missing_reset(&mut r);
            }
        }
        r.emit();
        return;
    }
    if a.shard == 0 {
        guarded(&mut r, "C12|placement|unexpected-panic", || "placement".into(), |r| placement(r));
        for x in canon() {
            guarded(&mut r, "C12|set_handler_addr|unexpected-panic", || format!("gateaddr {:#x}", x), |r| encoding_case(r, x));
        }
        guarded(&mut r, "C12|option setters|unexpected-panic", || "gateopts".into(), |r| options_search(r));
        guarded(&mut r, "C12|new/reset/missing|unexpected-panic", || "missing".into(), |r| missing_reset(r));
        guarded(&mut r, "C12|const-context|unexpected-panic", || "constctx".into(), |r| crate::constctx::tables(r, "C12"));
        guarded(&mut r, "C12|load|unexpected-panic", || "load".into(), |r| crate::c12load::run(r));
    }
    ranges(&mut r, a);
    r.exhaustive = true;
    r.sample("range a..=b 32 255 -> offset 512, len 224".into());
    r.sample("gateopts [Dpl(3), Stack(6), Present(false)]".into());
    r.sample("gateaddr 0xffff800000000000".into());
    r.note("all 256 vectors x Index/IndexMut; all 65536 (a,b) pairs x 4 two-sided forms + 18 (Bound,Bound) forms, all 256 a for the 7 one-sided/full forms, each through Index, IndexMut, slice, slice_mut; option setters: explicit-state search to fixpoint over decoded gates by history re-execution");
    r.emit();
}
