//! C19 — named constants and small codecs match the architecture manuals.
use crate::arch::*;
use crate::out::*;
use crate::Args;
use bitflags::Flags;
use core::convert::TryFrom;
use x86_64::instructions::tlb::Pcid;
use x86_64::registers::control::{Cr0Flags, Cr3Flags, Cr4Flags, EferFlags};
use x86_64::registers::debug::*;
use x86_64::registers::model_specific::*;
use x86_64::registers::mxcsr::MxCsr;
use x86_64::registers::rflags::RFlags;
use x86_64::registers::segmentation::SegmentSelector;
use x86_64::registers::xcontrol::XCr0Flags;
use x86_64::structures::gdt::DescriptorFlags;
use x86_64::structures::idt::{DescriptorTable, ExceptionVector, PageFaultErrorCode, SelectorErrorCode};
use x86_64::structures::paging::{PageSize, PageTableFlags, Size1GiB, Size2MiB, Size4KiB};
use x86_64::PrivilegeLevel;

fn flags_both_ways<T: Flags>(r: &mut Rep, ty: &str, tab: Tab)
where
    T::Bits: Into<u64> + Copy,
{
    let mut all: u64 = 0;
    for f in T::FLAGS.iter() {
        r.ev(true);
        let v: u64 = f.value().bits().into();
        match tab.iter().find(|(n, _)| *n == f.name()) {
            None => r.viol(&format!("C19|{}|{}|name-not-in-manual-table", ty, f.name()), &format!("flag {} {}", ty, f.name()), &format!("{:#x}", v)),
            Some((_, e)) if *e != v => r.viol(&format!("C19|{}|{}|wrong-value", ty, f.name()), &format!("flag {} {}", ty, f.name()), &format!("{:#x} expected {:#x}", v, e)),
            _ => {}
        }
    }
    for (n, e) in tab {
        r.ev(true);
        all |= e;
        if !T::FLAGS.iter().any(|f| f.name() == *n) {
            r.viol(&format!("C19|{}|{}|missing", ty, n), &format!("flag {} {}", ty, n), "");
        }
    }
    let a: u64 = T::all().bits().into();
    if a != all {
        r.viol(&format!("C19|{}|all()-differs-from-manual-table", ty), &format!("flag {} all", ty), &format!("{:#x} vs {:#x}", a, all));
    }
}

struct U32as64;
fn msr_no(m: &Msr) -> u32 {
    // Msr(u32) has a private field; its Debug output is `Msr(<decimal>)`
    let s = format!("{:?}", m);
    s.trim_start_matches("Msr(").trim_end_matches(')').parse().unwrap()
}

fn consts(r: &mut Rep) {
    flags_both_ways::<PageTableFlags>(r, "PageTableFlags", PAGE_TABLE_FLAGS);
    flags_both_ways::<DescriptorFlags>(r, "DescriptorFlags", DESCRIPTOR_FLAGS);
    flags_both_ways::<RFlags>(r, "RFlags", RFLAGS);
    flags_both_ways::<Cr0Flags>(r, "Cr0Flags", CR0);
    flags_both_ways::<Cr3Flags>(r, "Cr3Flags", CR3);
    flags_both_ways::<Cr4Flags>(r, "Cr4Flags", CR4);
    flags_both_ways::<EferFlags>(r, "EferFlags", EFER);
    flags_both_ways::<XCr0Flags>(r, "XCr0Flags", XCR0);
    flags_both_ways::<Dr6Flags>(r, "Dr6Flags", DR6);
    flags_both_ways::<Dr7Flags>(r, "Dr7Flags", DR7);
    flags_both_ways::<CetFlags>(r, "CetFlags", CET);
    flags_both_ways::<ApicBaseFlags>(r, "ApicBaseFlags", APIC_BASE);
    flags_both_ways::<PageFaultErrorCode>(r, "PageFaultErrorCode", PF_ERR);
    // MxCsr is u32
    {
        let mut all = 0u64;
        for f in MxCsr::FLAGS.iter() {
            r.ev(true);
            let v = f.value().bits() as u64;
            match MXCSR.iter().find(|(n, _)| *n == f.name()) {
                None => r.viol(&format!("C19|MxCsr|{}|name-not-in-manual-table", f.name()), &format!("flag MxCsr {}", f.name()), ""),
                Some((_, e)) if *e != v => r.viol(&format!("C19|MxCsr|{}|wrong-value", f.name()), &format!("flag MxCsr {}", f.name()), &format!("{:#x} expected {:#x}", v, e)),
                _ => {}
            }
        }
        for (n, e) in MXCSR {
            all |= e;
            if !MxCsr::FLAGS.iter().any(|f| f.name() == *n) {
                r.viol(&format!("C19|MxCsr|{}|missing", n), &format!("flag MxCsr {}", n), "");
            }
        }
        if MxCsr::all().bits() as u64 != all {
            r.viol("C19|MxCsr|all()-differs-from-manual-table", "flag MxCsr all", "");
        }
        if MxCsr::default().bits() != MXCSR_RESET {
            r.viol("C19|MxCsr::default|not-0x1f80", "mxcsr default", &format!("{:#x}", MxCsr::default().bits()));
        }
    }
    let msrs: [(&str, u32, u32); 11] = [
        ("Efer", msr_no(&Efer::MSR), MSR_EFER), ("Star", msr_no(&Star::MSR), MSR_STAR), ("LStar", msr_no(&LStar::MSR), MSR_LSTAR),
        ("SFMask", msr_no(&SFMask::MSR), MSR_SFMASK), ("FsBase", msr_no(&FsBase::MSR), MSR_FS_BASE), ("GsBase", msr_no(&GsBase::MSR), MSR_GS_BASE),
        ("KernelGsBase", msr_no(&KernelGsBase::MSR), MSR_KERNEL_GS_BASE), ("UCet", msr_no(&UCet::MSR), MSR_U_CET), ("SCet", msr_no(&SCet::MSR), MSR_S_CET),
        ("Pat", msr_no(&Pat::MSR), MSR_PAT), ("ApicBase", msr_no(&ApicBase::MSR), MSR_APIC_BASE),
    ];
    for (n, g, e) in msrs {
        r.ev(true);
        if g != e {
            r.viol(&format!("C19|{}::MSR|wrong-number", n), &format!("msr {}", n), &format!("{:#x} expected {:#x}", g, e));
        }
    }
    {
        use x86_64::instructions::segmentation::{Segment64, FS, GS};
        if msr_no(&<FS as Segment64>::BASE) != MSR_FS_BASE || msr_no(&<GS as Segment64>::BASE) != MSR_GS_BASE {
            r.viol("C19|Segment64::BASE|wrong-number", "msr segbase", "");
        }
        if msr_no(&Msr::new(0x1234_5678)) != 0x1234_5678 {
            r.viol("C19|Msr::new|wrong-number", "msr new", "");
        }
    }
    r.ev(true);
    if Size4KiB::SIZE != 4096 || Size2MiB::SIZE != 2 * 1024 * 1024 || Size1GiB::SIZE != 1024 * 1024 * 1024 {
        r.viol("C19|PageSize::SIZE|wrong", "pagesize", "");
    }
    let d = Pat::DEFAULT;
    let dv = u64::from_le_bytes([d[0].bits(), d[1].bits(), d[2].bits(), d[3].bits(), d[4].bits(), d[5].bits(), d[6].bits(), d[7].bits()]);
    if dv != PAT_RESET {
        r.viol("C19|Pat::DEFAULT|not-the-power-on-value", "pat default", &format!("{:#x}", dv));
    }
    if SegmentSelector::NULL.0 != 0 {
        r.viol("C19|SegmentSelector::NULL|nonzero", "selector null", "");
    }
    // Dr6/Dr7 helpers
    for n in 0..4u8 {
        let num = DebugAddressRegisterNumber::new(n).unwrap();
        if Dr6Flags::trap(num).bits() != 1 << n || Dr7Flags::local_breakpoint_enable(num).bits() != 1 << (2 * n) || Dr7Flags::global_breakpoint_enable(num).bits() != 1 << (2 * n + 1) {
            r.viol("C19|Dr6/Dr7 per-register flag helpers|wrong", &format!("drhelper {}", n), "");
        }
    }
    {
        use x86_64::registers::debug::{DebugAddressRegister, Dr0, Dr1, Dr2, Dr3};
        if Dr0::NUM.get() != 0 || Dr1::NUM.get() != 1 || Dr2::NUM.get() != 2 || Dr3::NUM.get() != 3 {
            r.viol("C19|DebugAddressRegister::NUM|wrong", "drnum", "");
        }
    }
    if PrivilegeLevel::Ring0 as u8 != 0 || PrivilegeLevel::Ring1 as u8 != 1 || PrivilegeLevel::Ring2 as u8 != 2 || PrivilegeLevel::Ring3 as u8 != 3 {
        r.viol("C19|PrivilegeLevel|discriminant-wrong", "ring", "");
    }
}

fn codecs(r: &mut Rep) {
    // exception vectors: all 256 inputs
    for v in 0..=255u8 {
        r.ev(true);
        let e = EXC.iter().find(|x| x.1 == v);
        match (ExceptionVector::try_from(v), e) {
            (Ok(g), Some(e)) => {
                if g as u8 != v || format!("{:?}", g) != e.0 {
                    r.viol("C19|ExceptionVector|wrong-name-or-number", &format!("excvec {}", v), &format!("{:?}", g));
                }
            }
            (Err(_), None) => {}
            (g, _) => r.viol("C19|ExceptionVector::try_from|accepts-or-rejects-wrongly", &format!("excvec {}", v), &format!("{:?}", g.is_ok())),
        }
    }
    for x in 0..=u16::MAX {
        r.ev(x > 3);
        // privilege level
        match catch(|| PrivilegeLevel::from_u16(x)) {
            Ok(p) => {
                if x > 3 || p as u16 != x {
                    r.viol("C19|PrivilegeLevel::from_u16|wrong", &format!("ring {}", x), "");
                }
            }
            Err(()) => {
                if x <= 3 {
                    r.viol("C19|PrivilegeLevel::from_u16|rejects-valid", &format!("ring {}", x), "");
                }
            }
        }
        // selector raw decode
        let s = SegmentSelector(x);
        // the human-readable form of a selector shows the same index and privilege level as the accessors, for every encoding
        // (a selector with the table-indicator bit set is as printable as any other)
        {
            let txt = catch(|| format!("{:?}", s));
            let want_i = format!("index: {}", x >> 3);
            let want_r = format!("rpl: Ring{}", x & 3);
            if !matches!(&txt, Ok(t) if t.contains(&want_i) && t.contains(&want_r)) {
                r.viol("C19|SegmentSelector|Debug-text-panics-or-disagrees-with-index/rpl", &format!("selector {:#x}", x), &format!("{:?}", txt));
            }
        }
        if s.index() != x >> 3 || s.rpl() as u16 != x & 3 {
            r.viol("C19|SegmentSelector|index/rpl-wrong", &format!("selector {:#x}", x), "");
        }
        for rpl in 0..4u16 {
            let mut t = SegmentSelector(x);
            t.set_rpl(PrivilegeLevel::from_u16(rpl));
            if t.0 != (x & !3) | rpl {
                r.viol("C19|SegmentSelector::set_rpl|touches-other-bits", &format!("selector {:#x} {}", x, rpl), "");
            }
        }
        if x < 8192 {
            for rpl in 0..4u16 {
                let n = SegmentSelector::new(x, PrivilegeLevel::from_u16(rpl));
                if n.0 != (x << 3) | rpl || n.0 & 4 != 0 {
                    r.viol("C19|SegmentSelector::new|wrong-encoding", &format!("selnew {} {}", x, rpl), &format!("{:#x}", n.0));
                }
            }
        }
        // PCID
        match Pcid::new(x) {
            Ok(p) => {
                if x >= 4096 || p.value() != x {
                    r.viol("C19|Pcid::new|accepts-out-of-range-or-changes", &format!("pcid {}", x), "");
                }
            }
            Err(_) => {
                if x < 4096 {
                    r.viol("C19|Pcid::new|rejects-valid", &format!("pcid {}", x), "");
                }
            }
        }
        // selector error code
        let v = x as u64;
        match SelectorErrorCode::new(v) {
            None => r.viol("C19|SelectorErrorCode::new|rejects-valid", &format!("selerr {:#x}", v), ""),
            Some(c) => {
                let et = match (v >> 1) & 3 { 0 => DescriptorTable::Gdt, 2 => DescriptorTable::Ldt, _ => DescriptorTable::Idt };
                if c.external() != (v & 1 == 1) || c.descriptor_table() != et || c.index() != v >> 3 || c.is_null() != (v == 0) {
                    r.viol("C19|SelectorErrorCode|field-wrong", &format!("selerr {:#x}", v), "");
                }
                let t = SelectorErrorCode::new_truncate(v | 0xabcd_0000);
                if t != c {
                    r.viol("C19|SelectorErrorCode::new_truncate|wrong", &format!("selerr {:#x}", v), "");
                }
            }
        }
    }
    for v in [0x1_0000u64, 0x1_0001, 1 << 32, u64::MAX, 0xffff_0000] {
        r.ev(true);
        if SelectorErrorCode::new(v).is_some() {
            r.viol("C19|SelectorErrorCode::new|accepts-above-16-bits", &format!("selerr {:#x}", v), "");
        }
    }
    for x in 0..=255u8 {
        r.ev(true);
        let e = PAT_TYPES.iter().find(|t| t.1 == x);
        match (PatMemoryType::from_bits(x), e) {
            (Some(g), Some(e)) => {
                if g.bits() != x || format!("{:?}", g) != e.0 {
                    r.viol("C19|PatMemoryType|wrong-name-or-encoding", &format!("pat {}", x), &format!("{:?}", g));
                }
            }
            (None, None) => {}
            _ => r.viol("C19|PatMemoryType::from_bits|accepts-or-rejects-wrongly", &format!("pat {}", x), ""),
        }
        match DebugAddressRegisterNumber::new(x) {
            Some(n) => {
                if x > 3 || n.get() != x {
                    r.viol("C19|DebugAddressRegisterNumber|wrong", &format!("drn {}", x), "");
                }
            }
            None => {
                if x <= 3 {
                    r.viol("C19|DebugAddressRegisterNumber|rejects-valid", &format!("drn {}", x), "");
                }
            }
        }
    }
    let mut vals: Vec<u64> = (0..300).collect();
    vals.extend_from_slice(&[1 << 8, 1 << 16, 1 << 32, u64::MAX, 0x100, 0x101, 0x102, 0x103, 4 + (1 << 32)]);
    for &v in &vals {
        r.ev(true);
        let c = BreakpointCondition::from_bits(v);
        if c.map(|c| c as u64) != (v < 4).then_some(v) {
            r.viol("C19|BreakpointCondition::from_bits|wrong", &format!("bpcond {:#x}", v), "");
        }
        let s = BreakpointSize::from_bits(v);
        if s.map(|c| c as u64) != (v < 4).then_some(v) {
            r.viol("C19|BreakpointSize::from_bits|wrong", &format!("bpsizebits {:#x}", v), "");
        }
        // SDM: LEN 00 = 1 byte, 01 = 2 bytes, 10 = 8 bytes, 11 = 4 bytes
        let e = match v { 1 => Some(0u64), 2 => Some(1), 8 => Some(2), 4 => Some(3), _ => None };
        if BreakpointSize::new(v as usize).map(|c| c as u64) != e {
            r.viol("C19|BreakpointSize::new|wrong-length-encoding", &format!("bpsize {:#x}", v), "");
        }
    }
    if BreakpointCondition::InstructionExecution as u8 != 0 || BreakpointCondition::DataWrites as u8 != 1 || BreakpointCondition::IoReadsWrites as u8 != 2 || BreakpointCondition::DataReadsWrites as u8 != 3 {
        r.viol("C19|BreakpointCondition|discriminant-wrong", "bpcond enum", "");
    }
}

fn dr7(r: &mut Rep) {
    let flagbits: u64 = DR7.iter().fold(0, |a, x| a | x.1);
    let valid = flagbits | 0xffff_0000;
    // from_bits accepts exactly values inside the valid mask: every single bit + patterns
    for b in 0..64 {
        r.ev(true);
        let v = 1u64 << b;
        if Dr7Value::from_bits(v).is_some() != (v & !valid == 0) {
            r.viol("C19|Dr7Value::from_bits|valid-mask-wrong", &format!("dr7bits {:#x}", v), "");
        }
        if Dr7Value::from_bits_truncate(v | valid).bits() != valid {
            r.viol("C19|Dr7Value::from_bits_truncate|wrong", &format!("dr7bits {:#x}", v), "");
        }
    }
    // Dr7Flags -> Dr7Value conversion: only valid encodings come out, whatever bits the flags value retains
    // (Dr7Flags::from_bits_retain(Dr7::read_raw()) carries the always-one bit 10)
    let mut xs: Vec<u64> = vec![0, u64::MAX, valid, !valid, 0x400, 0xffff_ffff_0000_0000, 0x0000_0000_ffff_ffff];
    for b in 0..64 {
        xs.push(1u64 << b);
        xs.push(!(1u64 << b));
        xs.push(flagbits | 1u64 << b);
    }
    for x in xs {
        r.ev(x & !valid != 0);
        let v = Dr7Value::from(Dr7Flags::from_bits_retain(x));
        if v.bits() != x & valid || Dr7Value::from_bits(v.bits()).map(|w| w.bits()) != Some(v.bits()) {
            r.viol("C19|Dr7Value::from(Dr7Flags)|yields-an-encoding-that-from_bits-rejects-or-drops-valid-bits", &format!("dr7from {:#x}", x), &format!("{:#x}", v.bits()));
        }
    }
    let conds = [BreakpointCondition::InstructionExecution, BreakpointCondition::DataWrites, BreakpointCondition::IoReadsWrites, BreakpointCondition::DataReadsWrites];
    let sizes = [BreakpointSize::Length1B, BreakpointSize::Length2B, BreakpointSize::Length8B, BreakpointSize::Length4B];
    // 2^12 flag lattice positions: the 12 defined flag bits
    let fb: Vec<u64> = DR7.iter().map(|x| x.1).collect();
    for sub in 0..(1u32 << 12) {
        let mut base = 0u64;
        for (i, b) in fb.iter().enumerate() {
            if sub >> i & 1 == 1 {
                base |= b;
            }
        }
        // other fields: alternate all-ones / zero / pattern depending on subset parity to vary surroundings
        let fields = match sub % 3 { 0 => 0u64, 1 => 0xffff_0000, _ => 0xa5c3_0000 };
        let start = base | fields;
        for n in 0..4u8 {
            let num = DebugAddressRegisterNumber::new(n).unwrap();
            for (ci, c) in conds.iter().enumerate() {
                for (si, s) in sizes.iter().enumerate() {
                    r.ev(true);
                    let mut v = match Dr7Value::from_bits(start) {
                        Some(v) => v,
                        None => {
                            r.viol("C19|Dr7Value::from_bits|rejects-a-value-inside-the-valid-mask", &format!("dr7bits {:#x}", start), "");
                            continue;
                        }
                    };
                    v.set_condition(num, *c);
                    let e1 = (start & !(3u64 << (16 + 4 * n))) | ((ci as u64) << (16 + 4 * n));
                    let ok1 = v.bits() == e1;
                    v.set_size(num, *s);
                    let e2 = (e1 & !(3u64 << (18 + 4 * n))) | ((si as u64) << (18 + 4 * n));
                    if !ok1 || v.bits() != e2 || v.condition(num) != *c || v.size(num) != *s || v.flags().bits() != base {
                        r.viol("C19|Dr7Value|condition/size-field-not-independent", &format!("dr7 {:#x} {} {} {}", start, n, ci, si), &format!("{:#x} expected {:#x}", v.bits(), e2));
                    }
                }
            }
        }
    }
    // every single field value must be accepted by from_bits and survive from_bits_truncate
    for n in 0..4u64 {
        for c in 0..4u64 {
            for sz in 0..4u64 {
                r.ev(true);
                let raw = (c << (16 + 4 * n)) | (sz << (18 + 4 * n));
                let ok = Dr7Value::from_bits(raw).map(|v| v.bits()) == Some(raw) && Dr7Value::from_bits_truncate(raw).bits() == raw;
                if !ok {
                    r.viol("C19|Dr7Value|condition/size-encoding-rejected-or-truncated", &format!("dr7field {} {} {}", n, c, sz), &format!("{:#x}", raw));
                }
            }
        }
    }
    // flag ops
    for (n, b) in DR7 {
        r.ev(true);
        let (f, mut v) = match (Dr7Flags::from_bits(*b), Dr7Value::from_bits(0xffff_0000)) {
            (Some(f), Some(v)) => (f, v),
            _ => {
                r.viol("C19|Dr7Value::from_bits|rejects-a-value-inside-the-valid-mask", &format!("dr7flag {}", n), "");
                continue;
            }
        };
        v.insert_flags(f);
        let a = v.bits();
        v.toggle_flags(f);
        let t = v.bits();
        v.set_flags(f, true);
        let s1 = v.bits();
        v.remove_flags(f);
        if a != 0xffff_0000 | b || t != 0xffff_0000 || s1 != a || v.bits() != 0xffff_0000 || Dr7Value::from(f).bits() != *b {
            r.viol("C19|Dr7Value|flag-ops-wrong", &format!("dr7flag {}", n), "");
        }
    }
}

pub fn run(a: &Args) {
    if a.replay.is_some() {
        // all C19 cases are cheap: a replay re-runs the whole finite enumeration
    }
    let mut r = Rep::new("C19", "constants+codecs");
    guarded(&mut r, "C19|constants|unexpected-panic", || "consts".into(), |r| consts(r));
    guarded(&mut r, "C19|codecs|unexpected-panic", || "codecs".into(), |r| codecs(r));
    guarded(&mut r, "C19|Dr7Value|unexpected-panic", || "dr7".into(), |r| dr7(r));
    // exception-vector numbers as the IDT lays them out: each named field at 16 x its vector
    guarded(&mut r, "C19|named-field|unexpected-panic", || "field".into(), |r| crate::c12::named_field_placement(r, "C19"));
    // exception-vector numbers as the general-handler stubs report them: the stub installed for a named exception is entered
    // with a hardware-format frame and must hand the general handler that exception's vector number
    for v in [0u8, 3, 8, 10, 11, 12, 13, 14, 17, 18, 21, 28, 29, 30] {
        crate::c13::entry_vector(&mut r, v);
    }
    // PAT conversion through the register wrapper (the rdmsr is emulated): every byte value in every slot
    guarded(&mut r, "C19|Pat::read|unexpected-panic", || "patimage".into(), |r| crate::c16::pat_images(r, "C19"));
    // privilege-level field of descriptors (bits 45-46 of the first word, for user and system descriptors alike)
    for b in [0u64, u64::MAX, 1 << 45, 1 << 46, !(3u64 << 45), 0x0000_8900_0000_0067] {
        for dpl in 0..4u8 {
            for sys in [false, true] {
                guarded(&mut r, "C19|Descriptor::dpl|unexpected-panic", || format!("dpl {:#x} {} {}", b, dpl, sys), |r| crate::c15::dpl_case_tag(r, "C19", b, dpl, sys));
            }
        }
    }
    r.nontrivial = r.evals;
    r.exhaustive = true;
    r.sample("flag Cr4Flags PCID == 1<<17".into());
    r.sample("excvec 14 -> Page".into());
    r.sample("dr7 0xffff0355 2 3 1".into());
    r.note("every bitflags type walked through bitflags::Flags::FLAGS and compared both ways with the hand-transcribed manual table (arch.rs)");
    r.emit();
}
