//! R4 — architectural tables transcribed by hand from the Intel SDM / AMD APM (NOT derived from the crate).
//! (type, name, value)

pub type Tab = &'static [(&'static str, u64)];

pub const fn bit(n: u32) -> u64 {
    1u64 << n
}

// Intel SDM vol.3 4.5 (4-level paging entry formats)
pub const PAGE_TABLE_FLAGS: Tab = &[
    ("PRESENT", bit(0)), ("WRITABLE", bit(1)), ("USER_ACCESSIBLE", bit(2)), ("WRITE_THROUGH", bit(3)), ("NO_CACHE", bit(4)),
    ("ACCESSED", bit(5)), ("DIRTY", bit(6)), ("HUGE_PAGE", bit(7)), ("PAT_4KIB_PAGE", bit(7)), ("GLOBAL", bit(8)),
    ("BIT_9", bit(9)), ("BIT_10", bit(10)), ("BIT_11", bit(11)), ("PAT_HUGE_PAGE", bit(12)),
    ("BIT_52", bit(52)), ("BIT_53", bit(53)), ("BIT_54", bit(54)), ("BIT_55", bit(55)), ("BIT_56", bit(56)), ("BIT_57", bit(57)),
    ("BIT_58", bit(58)), ("BIT_59", bit(59)), ("BIT_60", bit(60)), ("BIT_61", bit(61)), ("BIT_62", bit(62)), ("NO_EXECUTE", bit(63)),
];
// SDM vol.3 3.4.5 segment descriptors
pub const DESCRIPTOR_FLAGS: Tab = &[
    ("ACCESSED", bit(40)), ("WRITABLE", bit(41)), ("CONFORMING", bit(42)), ("EXECUTABLE", bit(43)), ("USER_SEGMENT", bit(44)),
    ("DPL_RING_3", 3 << 45), ("PRESENT", bit(47)), ("AVAILABLE", bit(52)), ("LONG_MODE", bit(53)), ("DEFAULT_SIZE", bit(54)),
    ("GRANULARITY", bit(55)), ("LIMIT_0_15", 0xffff), ("LIMIT_16_19", 0xf << 48), ("BASE_0_23", 0xff_ffff << 16), ("BASE_24_31", 0xff << 56),
];
// SDM vol.1 3.4.3 EFLAGS
pub const RFLAGS: Tab = &[
    ("ID", bit(21)), ("VIRTUAL_INTERRUPT_PENDING", bit(20)), ("VIRTUAL_INTERRUPT", bit(19)), ("ALIGNMENT_CHECK", bit(18)),
    ("VIRTUAL_8086_MODE", bit(17)), ("RESUME_FLAG", bit(16)), ("NESTED_TASK", bit(14)), ("IOPL_HIGH", bit(13)), ("IOPL_LOW", bit(12)),
    ("OVERFLOW_FLAG", bit(11)), ("DIRECTION_FLAG", bit(10)), ("INTERRUPT_FLAG", bit(9)), ("TRAP_FLAG", bit(8)), ("SIGN_FLAG", bit(7)),
    ("ZERO_FLAG", bit(6)), ("AUXILIARY_CARRY_FLAG", bit(4)), ("PARITY_FLAG", bit(2)), ("CARRY_FLAG", bit(0)),
];
// SDM vol.3 2.5 control registers
pub const CR0: Tab = &[
    ("PROTECTED_MODE_ENABLE", bit(0)), ("MONITOR_COPROCESSOR", bit(1)), ("EMULATE_COPROCESSOR", bit(2)), ("TASK_SWITCHED", bit(3)),
    ("EXTENSION_TYPE", bit(4)), ("NUMERIC_ERROR", bit(5)), ("WRITE_PROTECT", bit(16)), ("ALIGNMENT_MASK", bit(18)),
    ("NOT_WRITE_THROUGH", bit(29)), ("CACHE_DISABLE", bit(30)), ("PAGING", bit(31)),
];
pub const CR3: Tab = &[("PAGE_LEVEL_WRITETHROUGH", bit(3)), ("PAGE_LEVEL_CACHE_DISABLE", bit(4))];
pub const CR4: Tab = &[
    ("VIRTUAL_8086_MODE_EXTENSIONS", bit(0)), ("PROTECTED_MODE_VIRTUAL_INTERRUPTS", bit(1)), ("TIMESTAMP_DISABLE", bit(2)),
    ("DEBUGGING_EXTENSIONS", bit(3)), ("PAGE_SIZE_EXTENSION", bit(4)), ("PHYSICAL_ADDRESS_EXTENSION", bit(5)),
    ("MACHINE_CHECK_EXCEPTION", bit(6)), ("PAGE_GLOBAL", bit(7)), ("PERFORMANCE_MONITOR_COUNTER", bit(8)), ("OSFXSR", bit(9)),
    ("OSXMMEXCPT_ENABLE", bit(10)), ("USER_MODE_INSTRUCTION_PREVENTION", bit(11)), ("L5_PAGING", bit(12)),
    ("VIRTUAL_MACHINE_EXTENSIONS", bit(13)), ("SAFER_MODE_EXTENSIONS", bit(14)), ("FSGSBASE", bit(16)), ("PCID", bit(17)),
    ("OSXSAVE", bit(18)), ("KEY_LOCKER", bit(19)), ("SUPERVISOR_MODE_EXECUTION_PROTECTION", bit(20)),
    ("SUPERVISOR_MODE_ACCESS_PREVENTION", bit(21)), ("PROTECTION_KEY_USER", bit(22)), ("CONTROL_FLOW_ENFORCEMENT", bit(23)),
    ("PROTECTION_KEY_SUPERVISOR", bit(24)),
];
// AMD APM vol.2 3.1.7 EFER
pub const EFER: Tab = &[
    ("SYSTEM_CALL_EXTENSIONS", bit(0)), ("LONG_MODE_ENABLE", bit(8)), ("LONG_MODE_ACTIVE", bit(10)), ("NO_EXECUTE_ENABLE", bit(11)),
    ("SECURE_VIRTUAL_MACHINE_ENABLE", bit(12)), ("LONG_MODE_SEGMENT_LIMIT_ENABLE", bit(13)), ("FAST_FXSAVE_FXRSTOR", bit(14)),
    ("TRANSLATION_CACHE_EXTENSION", bit(15)),
];
// SDM vol.1 13.3 XCR0; LWP: AMD APM
pub const XCR0: Tab = &[
    ("X87", bit(0)), ("SSE", bit(1)), ("AVX", bit(2)), ("BNDREG", bit(3)), ("BNDCSR", bit(4)), ("OPMASK", bit(5)), ("ZMM_HI256", bit(6)),
    ("HI16_ZMM", bit(7)), ("MPK", bit(9)), ("LWP", bit(62)),
];
// SDM vol.1 10.2.3 MXCSR
pub const MXCSR: Tab = &[
    ("INVALID_OPERATION", bit(0)), ("DENORMAL", bit(1)), ("DIVIDE_BY_ZERO", bit(2)), ("OVERFLOW", bit(3)), ("UNDERFLOW", bit(4)),
    ("PRECISION", bit(5)), ("DENORMALS_ARE_ZEROS", bit(6)), ("INVALID_OPERATION_MASK", bit(7)), ("DENORMAL_MASK", bit(8)),
    ("DIVIDE_BY_ZERO_MASK", bit(9)), ("OVERFLOW_MASK", bit(10)), ("UNDERFLOW_MASK", bit(11)), ("PRECISION_MASK", bit(12)),
    ("ROUNDING_CONTROL_NEGATIVE", bit(13)), ("ROUNDING_CONTROL_POSITIVE", bit(14)), ("ROUNDING_CONTROL_ZERO", 3 << 13), ("FLUSH_TO_ZERO", bit(15)),
];
pub const MXCSR_RESET: u32 = 0x1f80;
// SDM vol.3 18.2 debug registers
pub const DR6: Tab = &[
    ("TRAP0", bit(0)), ("TRAP1", bit(1)), ("TRAP2", bit(2)), ("TRAP3", bit(3)), ("TRAP", 0xf), ("ACCESS_DETECTED", bit(13)),
    ("STEP", bit(14)), ("SWITCH", bit(15)), ("RTM", bit(16)),
];
pub const DR7: Tab = &[
    ("LOCAL_BREAKPOINT_0_ENABLE", bit(0)), ("GLOBAL_BREAKPOINT_0_ENABLE", bit(1)), ("LOCAL_BREAKPOINT_1_ENABLE", bit(2)),
    ("GLOBAL_BREAKPOINT_1_ENABLE", bit(3)), ("LOCAL_BREAKPOINT_2_ENABLE", bit(4)), ("GLOBAL_BREAKPOINT_2_ENABLE", bit(5)),
    ("LOCAL_BREAKPOINT_3_ENABLE", bit(6)), ("GLOBAL_BREAKPOINT_3_ENABLE", bit(7)), ("LOCAL_EXACT_BREAKPOINT_ENABLE", bit(8)),
    ("GLOBAL_EXACT_BREAKPOINT_ENABLE", bit(9)), ("RESTRICTED_TRANSACTIONAL_MEMORY", bit(11)), ("GENERAL_DETECT_ENABLE", bit(13)),
];
// SDM vol.4 IA32_U_CET / IA32_S_CET
pub const CET: Tab = &[
    ("SS_ENABLE", bit(0)), ("SS_WRITE_ENABLE", bit(1)), ("IBT_ENABLE", bit(2)), ("IBT_LEGACY_ENABLE", bit(3)), ("IBT_NO_TRACK_ENABLE", bit(4)),
    ("IBT_LEGACY_SUPPRESS_ENABLE", bit(5)), ("IBT_SUPPRESS_ENABLE", bit(10)), ("IBT_TRACKED", bit(11)),
];
// SDM vol.3 11.4.4 IA32_APIC_BASE
pub const APIC_BASE: Tab = &[("BSP", bit(8)), ("X2APIC_ENABLE", bit(10)), ("LAPIC_ENABLE", bit(11))];
// SDM vol.3 4.7 page-fault error code; RMP: AMD APM vol.2 15.36
pub const PF_ERR: Tab = &[
    ("PROTECTION_VIOLATION", bit(0)), ("CAUSED_BY_WRITE", bit(1)), ("USER_MODE", bit(2)), ("MALFORMED_TABLE", bit(3)),
    ("INSTRUCTION_FETCH", bit(4)), ("PROTECTION_KEY", bit(5)), ("SHADOW_STACK", bit(6)), ("SGX", bit(15)), ("RMP", bit(31)),
];
// MSR numbers (SDM vol.4 / APM vol.2 appendix A)
pub const MSR_EFER: u32 = 0xC000_0080;
pub const MSR_STAR: u32 = 0xC000_0081;
pub const MSR_LSTAR: u32 = 0xC000_0082;
pub const MSR_SFMASK: u32 = 0xC000_0084;
pub const MSR_FS_BASE: u32 = 0xC000_0100;
pub const MSR_GS_BASE: u32 = 0xC000_0101;
pub const MSR_KERNEL_GS_BASE: u32 = 0xC000_0102;
pub const MSR_U_CET: u32 = 0x6A0;
pub const MSR_S_CET: u32 = 0x6A2;
pub const MSR_PAT: u32 = 0x277;
pub const MSR_APIC_BASE: u32 = 0x1B;
/// PAT encodings (SDM vol.3 11.12.2): UC 0, WC 1, WT 4, WP 5, WB 6, UC- 7
pub const PAT_TYPES: &[(&str, u8)] = &[
    ("StrongUncacheable", 0), ("WriteCombining", 1), ("WriteThrough", 4), ("WriteProtected", 5), ("WriteBack", 6), ("Uncacheable", 7),
];
/// power-on PAT: 0x0007040600070406
pub const PAT_RESET: u64 = 0x0007_0406_0007_0406;
/// exception vectors (SDM vol.3 6.3.1 table 6-1; #HV/#VC/#SX: AMD APM): (name, vector, has error code, diverging)
pub const EXC: &[(&str, u8, bool, bool)] = &[
    ("Division", 0, false, false), ("Debug", 1, false, false), ("NonMaskableInterrupt", 2, false, false), ("Breakpoint", 3, false, false),
    ("Overflow", 4, false, false), ("BoundRange", 5, false, false), ("InvalidOpcode", 6, false, false), ("DeviceNotAvailable", 7, false, false),
    ("Double", 8, true, true), ("InvalidTss", 10, true, false), ("SegmentNotPresent", 11, true, false), ("Stack", 12, true, false),
    ("GeneralProtection", 13, true, false), ("Page", 14, true, false), ("X87FloatingPoint", 16, false, false), ("AlignmentCheck", 17, true, false),
    ("MachineCheck", 18, false, true), ("SimdFloatingPoint", 19, false, false), ("Virtualization", 20, false, false),
    ("ControlProtection", 21, true, false), ("HypervisorInjection", 28, false, false), ("VmmCommunication", 29, true, false), ("Security", 30, true, false),
];
/// vectors that push an error code
pub const ERR_VECTORS: &[u8] = &[8, 10, 11, 12, 13, 14, 17, 21, 29, 30];
/// reserved vectors below 32
pub const RESERVED_VECTORS: &[u8] = &[15, 22, 23, 24, 25, 26, 27, 31];
