//! One SIGSEGV/SIGBUS/SIGILL/SIGTRAP handler for all environments (E2/E3 memory faults, E4 instruction emulation).
#![allow(static_mut_refs)]
use libc::{c_int, c_void, siginfo_t, ucontext_t};

pub static mut UNHANDLED_EXIT: i32 = 70;

unsafe extern "C" fn handler(sig: c_int, info: *mut siginfo_t, uctx: *mut c_void) {
    let uc = &mut *(uctx as *mut ucontext_t);
    let rip = uc.uc_mcontext.gregs[libc::REG_RIP as usize] as u64;
    if sig == libc::SIGSEGV || sig == libc::SIGBUS {
        let addr = (*info).si_addr() as u64;
        let err = uc.uc_mcontext.gregs[libc::REG_ERR as usize] as u64;
        let code = (*info).si_code;
        // real page faults (SEGV_MAPERR=1 / SEGV_ACCERR=2) go to the memory environments first
        if (code == 1 || code == 2) && crate::simphys::SIM.is_some() {
            let write = err & 2 != 0;
            if crate::simphys::sim().fault(addr, write, rip) {
                return;
            }
        }
    }
    if crate::simcpu::on_signal(sig, info, uc) {
        return;
    }
    // not ours: report and leave with the dedicated exit code
    let msg = format!("[sig] unhandled signal {} at rip {:#x} addr {:#x} code {}\n", sig, rip, (*info).si_addr() as u64, (*info).si_code);
    libc::write(2, msg.as_ptr() as *const c_void, msg.len());
    crate::on_fatal_signal();
    libc::_exit(UNHANDLED_EXIT);
}

pub fn install() {
    unsafe {
        // alternate stack: a fault with a broken RSP must still be reportable
        let sz = 1 << 16;
        let stk = libc::mmap(core::ptr::null_mut(), sz, libc::PROT_READ | libc::PROT_WRITE, libc::MAP_PRIVATE | libc::MAP_ANONYMOUS, -1, 0);
        let ss = libc::stack_t { ss_sp: stk, ss_flags: 0, ss_size: sz };
        libc::sigaltstack(&ss, core::ptr::null_mut());
        let mut sa: libc::sigaction = core::mem::zeroed();
        sa.sa_sigaction = handler as usize;
        sa.sa_flags = libc::SA_SIGINFO | libc::SA_ONSTACK | libc::SA_NODEFER;
        libc::sigemptyset(&mut sa.sa_mask);
        for s in [libc::SIGSEGV, libc::SIGBUS, libc::SIGILL, libc::SIGTRAP] {
            libc::sigaction(s, &sa, core::ptr::null_mut());
        }
    }
}
