//! vh32 — the pointer-width dimension. The crate's address/page/index types are meant to work on 32-bit hosts too (a boot
//! stage that prepares long-mode page tables); everything that passes through `usize` (Step counts, index conversions,
//! ENTRY_COUNT arithmetic) can differ there. This binary is interpreted by Miri for the target i686-unknown-linux-gnu
//! (`cargo miri run --target i686-unknown-linux-gnu`), which also turns any undefined behaviour on these paths into an abort.
//! Output: the same JSON lines as the main harness (/verif/harness/src/out.rs).
#![feature(step_trait)]
#![allow(dead_code)]

#[path = "../../harness/src/out.rs"]
mod out;
#[path = "../../harness/src/b64.rs"]
mod b64;
mod simcpu {
    pub fn panic_hook_notify() {}
}

use b64::*;
use out::*;
use std::iter::Step;
use x86_64::structures::paging::page_table::PageTableLevel;
use x86_64::structures::paging::{Page, PageOffset, PageSize, PageTableIndex, PhysFrame, Size1GiB, Size2MiB, Size4KiB};
use x86_64::{align_down, align_up, PhysAddr, VirtAddr};

const _: () = assert!(usize::BITS == 32 || cfg!(not(miri)), "vh32 is meant for a 32-bit usize");

fn addrs() -> Vec<u64> {
    // canonical boundary addresses: every single index bit, the gap, both ends, irregular patterns
    let mut v: Vec<u64> = vec![0, 0xfff, 0x1000, 0x7fff_ffff_ffff, 0xffff_8000_0000_0000, u64::MAX, 0x0000_0181_c0e0_9abc, sext48(0x9e37_79b9_7f4a_7c15), 0xffff_ffff_ffff_f000, 0x0000_7fff_ffe0_0000, 0xffff_ff80_0000_0000];
    for b in 0..48 {
        v.push(sext48(1u64 << b));
        v.push(sext48(!(1u64 << b)));
    }
    v.sort_unstable();
    v.dedup();
    v
}

fn c04(r: &mut Rep) {
    // level helpers: the 9-9-9-9-12 layout, independently of the pointer width
    let levels = [(PageTableLevel::One, 1u32), (PageTableLevel::Two, 2), (PageTableLevel::Three, 3), (PageTableLevel::Four, 4)];
    for (l, n) in levels {
        r.ev(n == 4);
        let case = format!("level32 {}", n);
        match catch(|| (l.table_address_space_alignment(), l.entry_address_space_alignment())) {
            Ok((t, e)) if t == 1u64 << (12 + 9 * n) && e == 1u64 << (12 + 9 * (n - 1)) => {}
            o => r.viol("C04|PageTableLevel|alignment-helpers-wrong-on-a-32-bit-host", &case, &format!("{:x?} expected table 2^{} entry 2^{}", o, 12 + 9 * n, 12 + 9 * (n - 1))),
        }
        let lo = l.next_lower_level().map(|x| x as u32);
        let hi = l.next_higher_level().map(|x| x as u32);
        if lo != (n > 1).then(|| n - 1) || hi != (n < 4).then(|| n + 1) {
            r.viol("C04|PageTableLevel|next-level-helpers-wrong", &case, "");
        }
    }
    for a in addrs() {
        r.ev(a != 0);
        let v = VirtAddr::new(a);
        let f = |s: u32| ((a >> s) & 0x1ff) as u16;
        let case = format!("addr32 {:#x}", a);
        let got = catch(|| [u16::from(v.p4_index()), u16::from(v.p3_index()), u16::from(v.p2_index()), u16::from(v.p1_index()), u16::from(v.page_offset())]);
        if got != Ok([f(39), f(30), f(21), f(12), (a & 0xfff) as u16]) {
            r.viol("C04|VirtAddr|index-accessors-wrong-on-a-32-bit-host", &case, &format!("{:x?}", got));
        }
        // every integer view of an index / offset
        let (i, o) = (v.p1_index(), v.page_offset());
        if usize::from(i) != f(12) as usize || u32::from(i) != f(12) as u32 || u64::from(i) != f(12) as u64 || usize::from(o) != (a & 0xfff) as usize || u32::from(o) != (a & 0xfff) as u32 || u64::from(o) != a & 0xfff {
            r.viol("C04|PageTableIndex/PageOffset|integer-views-disagree-on-a-32-bit-host", &case, "");
        }
        for (l, n) in levels {
            if catch(|| u16::from(v.page_table_index(l))) != Ok(f(12 + 9 * (n - 1))) {
                r.viol("C04|VirtAddr::page_table_index|wrong-on-a-32-bit-host", &case, "");
            }
        }
        let p = catch(|| Page::<Size4KiB>::from_page_table_indices(v.p4_index(), v.p3_index(), v.p2_index(), v.p1_index()).start_address().as_u64());
        let p2 = catch(|| Page::<Size2MiB>::from_page_table_indices_2mib(v.p4_index(), v.p3_index(), v.p2_index()).start_address().as_u64());
        let p1 = catch(|| Page::<Size1GiB>::from_page_table_indices_1gib(v.p4_index(), v.p3_index()).start_address().as_u64());
        if p != Ok(a & !0xfff) || p2 != Ok(a & !0x1f_ffff) || p1 != Ok(a & !0x3fff_ffff) {
            r.viol("C04|Page::from_page_table_indices*|not-the-inverse-on-a-32-bit-host", &case, &format!("{:x?} {:x?} {:x?}", p, p2, p1));
        }
    }
    for x in (0..=u16::MAX).step_by(257).chain([511, 512, 513, 4095, 4096, 4097, u16::MAX]) {
        r.ev(true);
        if u16::from(PageTableIndex::new_truncate(x)) != x % 512 || u16::from(PageOffset::new_truncate(x)) != x % 4096 || catch(|| PageTableIndex::new(x)).is_ok() != (x < 512) || catch(|| PageOffset::new(x)).is_ok() != (x < 4096) {
            r.viol("C04|PageTableIndex/PageOffset|constructors-wrong-on-a-32-bit-host", &format!("idx32 {}", x), "");
        }
    }
}

fn c05(r: &mut Rep) {
    // counts are usize (32 bit here): forward/backward by up to u32::MAX; distances that do not fit report (usize::MAX, None)
    let av = addrs();
    let counts: [usize; 9] = [0, 1, 2, 0xfff, 0x1000, 0x7fff_ffff, 0x8000_0000, 0xffff_fffe, 0xffff_ffff];
    for &a in &av {
        for &n in &counts {
            r.ev(true);
            let v = VirtAddr::new(a);
            let p = pos(a) as u128;
            let ef = ((p + n as u128) < 1u128 << 48).then(|| from_pos((p + n as u128) as u64));
            let eb = (n as u128 <= p).then(|| from_pos((p - n as u128) as u64));
            let case = format!("step32 {:#x} {:#x}", a, n);
            let got = catch(|| (Step::forward_checked(v, n).map(|x| x.as_u64()), Step::backward_checked(v, n).map(|x| x.as_u64())));
            if got != Ok((ef, eb)) {
                r.viol("C05|VirtAddr|forward/backward_checked-wrong-on-a-32-bit-host", &case, &format!("{:x?} expected {:x?} {:x?}", got, ef, eb));
            }
            // pages: count * SIZE must be computed in 64 bits
            let pg = Page::<Size2MiB>::containing_address(v);
            let pp = pos(pg.start_address().as_u64()) as u128;
            let efp = ((pp + n as u128 * 0x20_0000) < 1u128 << 48).then(|| from_pos((pp + n as u128 * 0x20_0000) as u64));
            let gp = catch(|| Step::forward_checked(pg, n).map(|x| x.start_address().as_u64()));
            if gp != Ok(efp) {
                r.viol("C05|Page<2MiB>|forward_checked-wrong-on-a-32-bit-host", &case, &format!("{:x?} expected {:x?}", gp, efp));
            }
        }
    }
    let pts: Vec<u64> = av.iter().copied().step_by(5).chain([0, 0xffff_ffff, 0x1_0000_0000, 0x7fff_ffff_ffff, 0xffff_8000_0000_0000, u64::MAX]).collect();
    for &a in &pts {
        for &b in &pts {
            r.ev(true);
            let exp: (usize, Option<usize>) = if b >= a {
                let d = pos(b) - pos(a);
                match usize::try_from(d) {
                    Ok(u) => (u, Some(u)),
                    Err(_) => (usize::MAX, None),
                }
            } else {
                (0, None)
            };
            let got = catch(|| Step::steps_between(&VirtAddr::new(a), &VirtAddr::new(b)));
            if got != Ok(exp) {
                r.viol("C05|VirtAddr|steps_between-wrong-on-a-32-bit-host", &format!("between32 {:#x} {:#x}", a, b), &format!("{:x?} expected {:x?}", got, exp));
            }
        }
    }
    // pages of every size: the distance in pages fits a 32-bit usize far more often than the distance in bytes or 4 KiB units
    fn pages_between<S: PageSize>(r: &mut Rep, pts: &[u64]) {
        for &a in pts {
            for &b in pts {
                r.ev(true);
                let (pa, pb) = (Page::<S>::containing_address(VirtAddr::new(a)), Page::<S>::containing_address(VirtAddr::new(b)));
                let (sa, sb) = (pa.start_address().as_u64(), pb.start_address().as_u64());
                let exp: (usize, Option<usize>) = if sb >= sa {
                    match usize::try_from((pos(sb) - pos(sa)) / S::SIZE) {
                        Ok(u) => (u, Some(u)),
                        Err(_) => (usize::MAX, None),
                    }
                } else {
                    (0, None)
                };
                let got = catch(|| Step::steps_between(&pa, &pb));
                if got != Ok(exp) {
                    r.viol(&format!("C05|Page<{}>|steps_between-wrong-on-a-32-bit-host", S::DEBUG_STR), &format!("pbetween32 {} {:#x} {:#x}", S::DEBUG_STR, a, b), &format!("{:x?} expected {:x?}", got, exp));
                }
                // mutual inverse where the count is representable
                if let (_, Some(n)) = exp {
                    if catch(|| Step::forward_checked(pa, n).map(|x| x.start_address().as_u64())) != Ok(Some(sb)) || catch(|| Step::backward_checked(pb, n).map(|x| x.start_address().as_u64())) != Ok(Some(sa)) {
                        r.viol(&format!("C05|Page<{}>|not-mutually-inverse-on-a-32-bit-host", S::DEBUG_STR), &format!("pbetween32 {} {:#x} {:#x}", S::DEBUG_STR, a, b), "");
                    }
                }
            }
        }
    }
    let ppts: Vec<u64> = vec![0, 0x1000, 0x20_0000, 0x4000_0000, 0xffff_f000, 0x1_0000_0000, 0x123_4560_0000, 0x1124_ec00_0000, 0x7fff_ffff_f000, 0xffff_8000_0000_0000, 0xffff_8000_4000_0000, 0xffff_ffff_ffff_f000];
    pages_between::<Size4KiB>(r, &ppts);
    pages_between::<Size2MiB>(r, &ppts);
    pages_between::<Size1GiB>(r, &ppts);
    for i in [0u16, 1, 255, 256, 510, 511] {
        for n in [0usize, 1, 2, 255, 256, 511, 512, 0xffff, 0x1_0000, 0xffff_ffff] {
            r.ev(true);
            let x = PageTableIndex::new(i);
            let ef = ((i as u64 + n as u64) < 512).then(|| i + n as u16);
            let eb = (n <= i as usize).then(|| i - n as u16);
            if catch(|| (Step::forward_checked(x, n).map(u16::from), Step::backward_checked(x, n).map(u16::from))) != Ok((ef, eb)) {
                r.viol("C05|PageTableIndex|forward/backward_checked-wrong-on-a-32-bit-host", &format!("index32 {} {:#x}", i, n), "");
            }
        }
    }
}

fn c06(r: &mut Rep) {
    for a in addrs().into_iter().step_by(3) {
        for k in [0u32, 1, 12, 21, 30, 31, 32, 33, 39, 47] {
            r.ev(true);
            let al = 1u64 << k;
            let dn = a / al * al;
            let up = (a as u128 + al as u128 - 1) / al as u128 * al as u128;
            let case = format!("raw32 {:#x} {}", a, k);
            if catch(|| align_down(a, al)) != Ok(dn) || catch(|| align_up(a, al)).ok() != (up < 1u128 << 64).then(|| up as u64) {
                r.viol("C06|align_down/align_up|wrong-on-a-32-bit-host", &case, "");
            }
            let v = VirtAddr::new(a);
            if catch(|| v.align_down(al).as_u64()) != Ok(dn) || catch(|| v.is_aligned(al)) != Ok(a % al == 0) {
                r.viol("C06|VirtAddr::align_down/is_aligned|wrong-on-a-32-bit-host", &case, "");
            }
        }
        fn contain<S: PageSize>(r: &mut Rep, a: u64) {
            let s = Page::<S>::containing_address(VirtAddr::new(a)).start_address().as_u64();
            let pa = a & 0x000f_ffff_ffff_ffff;
            let f = PhysFrame::<S>::containing_address(PhysAddr::new(pa)).start_address().as_u64();
            if s != a & !(S::SIZE - 1) || f != pa & !(S::SIZE - 1) {
                r.viol(&format!("C06|containing_address<{}>|wrong-on-a-32-bit-host", S::DEBUG_STR), &format!("contain32 {:#x}", a), "");
            }
        }
        contain::<Size4KiB>(r, a);
        contain::<Size2MiB>(r, a);
        contain::<Size1GiB>(r, a);
    }
}

fn c07(r: &mut Rep) {
    let av = addrs();
    let offs: [u64; 10] = [0, 1, 0xfff, 0x1000, 0xffff_ffff, 0x1_0000_0000, 0x1_0000_0001, 1 << 47, 1 << 52, u64::MAX];
    for &a in av.iter().step_by(2) {
        for &o in &offs {
            r.ev(true);
            let case = format!("arith32 {:#x} {:#x}", a, o);
            let exact = a as u128 + o as u128;
            match catch(|| (VirtAddr::new(a) + o).as_u64()) {
                Ok(g) if g as u128 == exact && is_canon(g) => {}
                Ok(g) => r.viol("C07|VirtAddr|add|returns-inexact-value-on-a-32-bit-host", &case, &format!("{:#x}", g)),
                Err(()) => {}
            }
            let pa = a & 0x000f_ffff_ffff_ffff;
            match catch(|| (PhysAddr::new(pa) + o).as_u64()) {
                Ok(g) if g as u128 == pa as u128 + o as u128 && is_phys(g) => {}
                Ok(g) => r.viol("C07|PhysAddr|add|returns-inexact-value-on-a-32-bit-host", &case, &format!("{:#x}", g)),
                Err(()) => {}
            }
            let pg = Page::<Size4KiB>::containing_address(VirtAddr::new(a));
            let base = pg.start_address().as_u64();
            match catch(|| (pg + o).start_address().as_u64()) {
                Ok(g) if g as u128 == base as u128 + o as u128 * 0x1000 => {}
                Ok(g) => r.viol("C07|Page<4KiB>|add|returns-inexact-value-on-a-32-bit-host", &case, &format!("{:#x}", g)),
                Err(()) => {}
            }
        }
    }
    // ranges longer than 2^32 pages report their exact length; short ones iterate exactly
    let s = Page::<Size4KiB>::containing_address(VirtAddr::new(0));
    let e = Page::<Size4KiB>::containing_address(VirtAddr::new(0x7fff_ffff_f000));
    r.ev(true);
    if catch(|| (Page::range(s, e).len(), Page::range_inclusive(s, e).len(), Page::range(s, e).size())) != Ok(((1u64 << 35) - 1, 1u64 << 35, ((1u64 << 35) - 1) * 0x1000)) {
        r.viol("C07|PageRange<4KiB>|len/size-of-a-range-longer-than-2^32-pages-wrong-on-a-32-bit-host", "range32 long", "");
    }
    let e2 = Page::<Size4KiB>::containing_address(VirtAddr::new(0x5000));
    if catch(|| Page::range_inclusive(s, e2).map(|p| p.start_address().as_u64()).collect::<Vec<u64>>()) != Ok(vec![0, 0x1000, 0x2000, 0x3000, 0x4000, 0x5000]) {
        r.viol("C07|PageRangeInclusive<4KiB>|wrong-items-on-a-32-bit-host", "range32 short", "");
    }
}

fn c14(r: &mut Rep) {
    use x86_64::structures::gdt::{Descriptor, DescriptorFlags, GlobalDescriptorTable};
    // contents, selectors and limit agree — with a 32-bit usize too (slots are 8 bytes whatever the pointer width)
    fn hist<const M: usize>(r: &mut Rep, kinds: &[u8]) {
        let mut g = GlobalDescriptorTable::<M>::empty();
        let mut reference = vec![0u64];
        for (i, &k) in kinds.iter().enumerate() {
            r.ev(true);
            let (d, slots): (Descriptor, Vec<u64>) = if k == 0 {
                let v = DescriptorFlags::USER_DATA.bits() | i as u64;
                (Descriptor::UserSegment(v), vec![v])
            } else {
                (Descriptor::SystemSegment(0x0000_8900_0000_0067 | (i as u64) << 16, 0x1_0000_0000 + i as u64), vec![0x0000_8900_0000_0067 | (i as u64) << 16, 0x1_0000_0000 + i as u64])
            };
            let fits = reference.len() + slots.len() <= M;
            let first = reference.len();
            match catch(|| g.append(d)) {
                Ok(sel) if fits => {
                    if sel.0 != ((first as u16) << 3) | ((slots[0] >> 45) & 3) as u16 {
                        r.viol("C14|selector-wrong-on-a-32-bit-host", &format!("gdt32 {} {:?} step {}", M, kinds, i), &format!("{:#x}", sel.0));
                    }
                    reference.extend_from_slice(&slots);
                }
                Ok(_) => r.viol("C14|append-beyond-capacity-succeeded-on-a-32-bit-host", &format!("gdt32 {} {:?} step {}", M, kinds, i), ""),
                Err(()) => {
                    if fits {
                        r.viol("C14|append-panics-although-it-fits-on-a-32-bit-host", &format!("gdt32 {} {:?} step {}", M, kinds, i), "");
                    }
                }
            }
            let got: Vec<u64> = g.entries().iter().map(|e| e.raw()).collect();
            if got != reference || g.limit() as usize != 8 * reference.len() - 1 {
                r.viol("C14|entries-or-limit-wrong-on-a-32-bit-host", &format!("gdt32 {} {:?} step {}", M, kinds, i), &format!("limit {} for {} slots", g.limit(), reference.len()));
            }
            let h = GlobalDescriptorTable::<M>::from_raw_entries(&reference);
            if h.entries().iter().map(|e| e.raw()).collect::<Vec<u64>>() != reference || h.limit() != g.limit() {
                r.viol("C14|from_raw_entries-does-not-reproduce-on-a-32-bit-host", &format!("gdt32 {} {:?} step {}", M, kinds, i), "");
            }
        }
    }
    for code in 0..64u32 {
        let kinds: Vec<u8> = (0..6).map(|i| (code >> i & 1) as u8).collect();
        hist::<8>(r, &kinds);
        if code < 8 {
            hist::<3>(r, &kinds[..3]);
        }
    }
    // a full large table
    let mut g = Box::new(GlobalDescriptorTable::<8192>::empty());
    for _ in 0..8191 {
        g.append(Descriptor::kernel_data_segment());
    }
    r.ev(true);
    if g.limit() != 0xffff || g.entries().len() != 8192 {
        r.viol("C14|limit-of-a-full-table-wrong-on-a-32-bit-host", "gdt32 full", &format!("{:#x}", g.limit()));
    }
}

fn c08(r: &mut Rep) {
    use x86_64::structures::paging::{PageTable, PageTableFlags, PageTableIndex};
    r.ev(true);
    if core::mem::size_of::<PageTable>() != 4096 || core::mem::align_of::<PageTable>() != 4096 || core::mem::size_of::<x86_64::structures::paging::page_table::PageTableEntry>() != 8 {
        r.viol("C08|PageTable|layout-wrong-on-a-32-bit-host", "table32 layout", "");
    }
    let mut t = Box::new(PageTable::new());
    for i in [0usize, 1, 255, 256, 510, 511] {
        r.ev(true);
        let v = 0x000f_ffff_0000_0000u64 | (i as u64) << 12;
        t[i].set_addr(PhysAddr::new(v), PageTableFlags::PRESENT | PageTableFlags::NO_EXECUTE);
        let raw = unsafe { *(&*t as *const PageTable as *const u64).add(i) };
        let via_index = t[PageTableIndex::new(i as u16)].addr().as_u64();
        let via_iter = t.iter().nth(i).map(|e| e.addr().as_u64());
        if raw != v | 1 | 1 << 63 || via_index != v || via_iter != Some(v) || t[i].flags().bits() & 0xfff0_0000_0000_0fff != 1 | 1 << 63 {
            r.viol("C08|PageTable|entry-or-access-paths-wrong-on-a-32-bit-host", &format!("table32 slot {}", i), &format!("raw {:#x} index {:#x} iter {:x?} flags {:#x}", raw, via_index, via_iter, t[i].flags().bits()));
        }
    }
    if t.is_empty() {
        r.viol("C08|PageTable::is_empty|true-for-populated-table-on-a-32-bit-host", "table32", "");
    }
    t.zero();
    if !t.is_empty() {
        r.viol("C08|PageTable::zero|leaves-entries-on-a-32-bit-host", "table32", "");
    }
}

fn main() {
    out::silence_panics();
    let only = std::env::args().nth(1);
    let parts: [(&str, fn(&mut Rep)); 6] = [("C04", c04), ("C05", c05), ("C06", c06), ("C07", c07), ("C08", c08), ("C14", c14)];
    for (p, f) in parts {
        if only.as_deref().map_or(true, |o| o == p || o == "all") {
            let mut r = Rep::new(p, &format!("usize-{}-bit-host", usize::BITS));
            guarded(&mut r, &format!("{}|32-bit-host|unexpected-panic", p), || "host32".into(), |r| f(r));
            r.nontrivial = r.evals;
            r.note(&format!("interpreted by Miri for a target with {}-bit usize (data-structure part of the crate, no inline asm); undefined behaviour on these paths aborts the run", usize::BITS));
            r.sample("level32 4 -> table alignment 2^48, entry alignment 2^39".into());
            r.emit();
        }
    }
}
