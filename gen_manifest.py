#!/usr/bin/env python3
"""Regenerate MANIFEST.json from props.py (run after editing props.py)."""
import json, os, sys
ROOT = os.path.dirname(os.path.abspath(__file__))
sys.path.insert(0, ROOT)
from props import PROPS, NOT_APPLICABLE, ENGINES
checks = []
for pid in sorted(PROPS):
    c = PROPS[pid]
    checks.append({
        "property_id": pid,
        "quick_cmd": f"./check {pid} --tier quick",
        "thorough_cmd": f"./check {pid} --tier thorough",
        "evidence_file": f"/verif/evidence/{pid}.json",
        "replay_cmd_template": f"./check {pid} --replay {{path}}",
        "engine": c.get("engine", "vh"),
        "level_claimed": {"category": c["level"], "text": c.get("level_text", c["rule"]), "design_ref": c.get("design_ref", "DESIGN.md §5 " + pid)},
        "level_note": "; ".join(c.get("assumptions", [])) or "see DESIGN.md §8",
        "technique": c.get("technique", "bounded exhaustive enumeration of inputs/operation sequences on the real code against a reference model"),
    })
m = {
    "version": 1,
    "setup_cmd": "./check --build",
    "hooks": {
        "guard": "cargo feature verif_hooks",
        "enable": "the harness depends on x86_64 = { path = \"/repo\", features = [\"verif_hooks\"] }",
        "baseline_off_cmd": "cd /repo && cargo test --workspace --no-fail-fast --offline",
        "source_commits": ["2b87060"],
        "add_only": True,
    },
    "engines": ENGINES,
    "checks": checks,
    "notes": "All checks are built from /repo's working tree through a cargo path dependency in two profiles (chk: overflow checks on; rel: off). Known findings: /verif/known_findings.json.",
    "not_applicable": NOT_APPLICABLE,
}
json.dump(m, open(os.path.join(ROOT, "MANIFEST.json"), "w"), indent=1)
print("wrote MANIFEST.json with", len(checks), "checks;", len(NOT_APPLICABLE), "not applicable")
